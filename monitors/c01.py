"""C01 - numeric expressions evaluate to the exact rational value."""
import json, time
from fractions import Fraction
from core import build, exact
from core.driver import Driver, DriverDied, DriverTimeout
from core import multi
from core.run import Acc, run_shards, finish, rng_for, NCPU

PID = "C01"
RULE = ("random expression trees over decimal literals (integers with leading zeros, fractions, exponent notation, "
        "negative values, percentages) and + - * / ^ (integer exponent, |e|<=8, literal or parenthesised integer-valued "
        "subtree); each tree is spelled fully parenthesised and with minimal parentheses, evaluated by the real query() "
        "in the debug-assertion and the release build and compared (reduced numerator and denominator) with an exact "
        "Fraction evaluation of the tree; division by zero incl. 0^-k must come back as an error. "
        "non-trivial = distinct query text with >=2 operators of >=2 different kinds")

def judge_reply(acc, text, tree, expected, rep, build_kind, style, logging=False):
    """expected: Fraction, or 'divzero'."""
    case = {"query": text, "build": build_kind, "style": style, "trace_logging": logging,
            "expected": "divide-by-zero error" if expected == "divzero" else [str(expected.numerator), str(expected.denominator)]}
    if "panic" in rep:
        acc.violate("panic:" + rep.get("panic_loc", "?"), "panic while evaluating %r: %s" % (text, rep["panic"]), dict(case, observed=rep))
        return
    if "parse_err" in rep or "harness_error" in rep:
        acc.violate("no-result", "no result sequence for %r: %s" % (text, rep), dict(case, observed=rep))
        return
    items = rep.get("items", [])
    obs = [("ok", it["ok"]["v"], it["ok"]["u"]) if "ok" in it else ("err", it["err"]["msg"]) for it in items]
    case["observed"] = obs
    if expected == "divzero":
        if any(o[0] == "ok" for o in obs) or not obs:
            kind = "0^neg" if has_zero_pow(tree) else "x/0"
            acc.violate("divzero-yields-number:" + kind, "%r divides by zero but yielded %s" % (text, obs), case)
        return
    if len(obs) != 1 or obs[0][0] != "ok":
        acc.violate("wrong-shape:" + style, "%r (exact value %s) gave %s" % (text, expected, obs), case)
        return
    _, v, u = obs[0]
    got = Fraction(int(v[0]), int(v[1]))
    if u:
        acc.violate("unit-on-number", "%r gave a unit %s" % (text, u), case)
    elif got != expected or int(v[1]) != expected.denominator or int(v[0]) != expected.numerator:
        acc.violate("wrong-value:" + style, "%r gave %s, exact value is %s" % (text, got, expected), case)

def has_zero_pow(t):
    if t[0] != "bin":
        return False
    if t[1] == "^":
        try:
            if exact.ev(t[2]) == 0 and exact.ev(t[3]) < 0:
                return True
        except Exception:
            pass
    return has_zero_pow(t[2]) or has_zero_pow(t[3])

def shard(p):
    acc = Acc()
    exact.MAX_BITS = 24000 if p.get("depth", 5) <= 5 else 12000        # results beyond ~7 000 (thorough: ~3 600) digits are skipped: the tool's power loop multiplies |n| times
    rng = rng_for(p["seed"], PID, p["shard"])
    cases = []
    while len(cases) < p["n"]:
        depth = rng.randint(1, p["depth"])
        if rng.random() < 0.004:
            # a zero base under an exponent beyond 32 and 64 bits (the only base whose power costs nothing, so the exponent may be
            # anything): 0 ^ -2147483649 is a division by zero like 0 ^ -1 (seed C01-j: sign and parity taken from an i32 conversion
            # that fails, `None` read as zero)
            e_ = rng.choice([2 ** 31, 2 ** 32, 2 ** 63, 2 ** 64, 10 ** 10, 10 ** 20]) + rng.choice([-1, 0, 1, 2])
            e_ *= rng.choice([1, -1, -1])
            z = rng.choice([("lit", "0", exact.Fraction(0)), ("bin", "-", exact.int_lit(7), exact.int_lit(7)), ("lit", "0.0", exact.Fraction(0)), ("bin", "*", exact.int_lit(0), exact.int_lit(5))])
            t = ("bin", "^", z, exact.int_lit(e_))
            if rng.random() < 0.5:
                t = ("bin", rng.choice("+*"), t, exact.int_lit(rng.randint(1, 9)))
            acc.count("zero_base_under_exponents_beyond_32_bits")
        elif rng.random() < 0.012:
            t = exact.gen_cancel(rng)
            if rng.random() < 0.3:
                t = ("bin", rng.choice("+-*"), t, exact.gen_literal(rng, 6, 3)) if rng.random() < 0.5 else ("bin", rng.choice("+-*"), exact.gen_literal(rng, 6, 3), t)
            acc.count("cancelling_wide_term_trees")
        elif rng.random() < 0.004:
            t = exact.gen_chain(rng, rng.choice([20, 40, 65, 100, 130, 260, 300]))      # long flat chains: counters, fixed stacks, quadratic folds
        else:
            t = exact.gen_tree(rng, depth, max_digits=p["digits"], max_exp=p["max_exp"])
        if rng.random() < 0.03:
            t = exact.reuse_literal(rng, t)
        if t[0] == "lit" and rng.random() < 0.8:
            continue
        try:
            e = exact.ev(t)
        except exact.DivZero:
            e = "divzero"
        except (exact.DontCare, exact.TooBig):
            acc.count("skipped_dontcare_or_too_big")
            continue
        cases.append((t, e))
    for kind in p["builds"]:
        binp = p["bins"][kind]
        # every fourth shard evaluates with a logger installed at trace level (RUST_LOG): whether logging is enabled must not change
        # any result (a traced twin of the evaluation loop, seed C01-h; lazily evaluated log arguments, seed C03-e)
        logging = p["shard"] % 4 == 3
        d = Driver(binp, env={"RUST_LOG": "anything=trace"} if logging else None)
        if logging:
            acc.count("evaluations_with_trace_logging_enabled", 2 * len(cases))
        try:
            for style in ("full", "min"):
                # (a quarter of the trees spell the power operator `**`)
                texts = [exact.render(t, style).replace(" ^ ", " ** ") if i % 4 == 1 else exact.render(t, style) for i, (t, _) in enumerate(cases)]
                reqs = [{"op": "query", "q": q} for q in texts]
                reps = []
                for i in range(0, len(reqs), 1000):
                    try:
                        reps += d.call_many(reqs[i:i + 1000], timeout=600)
                    except (DriverDied, DriverTimeout) as ex:
                        acc.inconc("driver %s: %r on a batch starting with %r" % (kind, ex, texts[i][:200]))
                        d.restart()
                        reps += [None] * len(reqs[i:i + 1000])
                for (t, e), q, rep in zip(cases, texts, reps):
                    if rep is None:
                        continue
                    acc.evaluations += 1
                    ops = exact.ops_of(t)
                    if len(ops) >= 2 and len(set(ops)) >= 2:
                        acc.nontriv(q)
                    acc.count("divzero_cases" if e == "divzero" else "value_cases")
                    acc.seen("operator_multisets", "".join(sorted(ops)))
                    judge_reply(acc, q, t, e, rep, kind, style, logging)
                    if style == "min" and kind == p["builds"][0]:
                        acc.sample({"query": q, "exact": "divide-by-zero" if e == "divzero" else str(e),
                                    "observed": [it.get("ok", {}).get("v") or it.get("err", {}).get("msg") for it in rep.get("items", [])]}, cap=2)
            qs = [exact.render(t, "min") for t, e in cases[:4000] if len(exact.render(t, "min")) < 200]
            multi.stage(acc, d, rng.sample(qs, min(len(qs), 300)), rng, 300, PID, kind)
        finally:
            d.close()
    return acc

def run(tier, seed):
    t0 = time.time()
    bins = {k: build.build(k)["vdriver"] for k in ("dbg", "rel")}
    if tier == "quick":
        n, depth, digits, max_exp = 80000, 5, 14, 30
    else:
        n, depth, digits, max_exp = 100000, 6, 60, 120          # (200 000 trees of depth 7 took 1.5 h: the tool's power loop is linear in the exponent)
    per = max(1, n // NCPU)
    payloads = [{"seed": seed, "shard": i, "n": per, "depth": depth, "digits": digits, "max_exp": max_exp,
                 "builds": ["dbg", "rel"], "bins": bins} for i in range(NCPU)]
    acc = run_shards(shard, payloads)
    return finish(PID, tier, seed, "exploration", acc, RULE, t0,
                  assumptions=["Python fractions.Fraction arithmetic is exact", "the generator spells the tree it evaluates (two spellings per tree are cross-checked)"],
                  min_eval=1000)

def replay(path):
    v = json.load(open(path))
    c = v["case"]
    b = build.build(c.get("build", "dbg"))["vdriver"]
    with Driver(b, env={"RUST_LOG": "anything=trace"} if c.get("trace_logging") else None) as d:
        rep = d.call({"op": "query", "q": c["query"]})
    print(json.dumps({"query": c["query"], "expected": c["expected"], "observed_now": rep.get("items", rep)}, ensure_ascii=False))
    return 0
