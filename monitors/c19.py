"""C19 - the command line prints exactly what the library computed."""
import json, os, shutil, subprocess, tempfile, time
from fractions import Fraction as F
from core import build, unitgen as G, facts as FX, exact
from core.driver import Driver
from core.run import Acc, finish, rng_for, run_shards, NCPU
from c02 import mag
from c08 import py_judge

PID = "C19"
RULE = ("the real `any` main (compiled from /repo/src/bin/any.rs) is run as a process under a private XDG_DATA_HOME, with and without "
        "--exact, on random queries that yield values, units (numerator only, denominator only, pluralisable units with value = 1 and != 1), "
        "several results, errors between results, and facts; stdout is compared with an independent rendering of the library's results "
        "for the same query: one line per result; exact mode `n` or `n/d` iff d != 1; otherwise the 12-digit rendering (which must also "
        "satisfy the C08 faithfulness oracle at (12,12)); then ' ' + unit iff some unit power is > 0, else the unit text directly; plural "
        "unit text iff value != 1; an error appears as a diagnostic block starting `error: <message>` and later results still print; "
        "exit status 0. non-trivial = distinct (query, mode) with a unit, several results or an error")

ERROR_CANDIDATES = ["(1 / 0)", "(0 ^ -1)", "(OR)", "(NOT)", "(NOT earth)", "(earth NOT)", "(earth OR)", "(OR earth)", "(earth AND OR moon)", "(1 m + 1 s)", "(1 m - 1 kg)",
                    "(1 m to s)", "(1 °C^2 to K^2)", "(1 °C*m to K*m)", "(1 K/s to °C/s)", "(floor())", "(round(1,2,3))", "(ceil(1,2))", "(round(1, 1 m))", "(round(1, 1.5))",
                    "(zzqqxx)", "(qqq jjj)", "(1 xyzunit)", "(1 m°)", "(nosuchfn(1))", "(2 ^ 1.5)", "(2 ^ (1 m))", "(2 ^ 3 m)", "(1 km*m)", "(1 g*kg)", "(1 m^2.5)", "(1 m^x)",
                    "(1 2 m)", "(5 m 2)", "(1 m^99999999999)", "(1e)", "(1 +)", "(+)", "(})", "({a b})", "(1.2.3)", "(sin(1 m))", "(cos())", "(1 m / 0 s)", "((1 - 1) ^ -2)",
                    "(1 to)", "(to m)", "(1 % %)", "(,)", "(round(,))", "(1 m to 2 m)", "(1 m to m^0)"]
PLURAL_UNITS = ["decade", "century", "millenium", "gallon", "btu", "cable", "acre", "hand", "pint", "cup"]

def gen_query(rng, V, facts, extra=None):
    r = rng.random()
    def value():
        t = exact.gen_tree(rng, rng.randint(0, 3), max_digits=8, max_exp=12)
        return exact.render(t, "min")
    def quantity():
        r2 = rng.random()
        if r2 < 0.3:
            u = rng.choice(V.pluralisable or PLURAL_UNITS)
            x = rng.choice(["1", "1", "2", "0.5", "1.0", "3", "-1", "01", "1e0", "10e-1", "100%", "0", "1.00000", "(2 / 2)", "(0.5 * 2)", "(3 - 2)"])
            if rng.random() < 0.35:
                # values that are not one but as close to it as one likes (a float comparison cannot tell; seed C19-c),
                # and values that ARE one spelled the long way
                k = rng.randint(1, 40)
                x = rng.choice(["1." + "0" * (k - 1) + "1", "0." + "9" * k, "1." + "0" * k, "(1 + 1e-%d)" % k, "(1 - 1e-%d)" % k,
                                "-1." + "0" * (k - 1) + "1", "(1 + 1e-%d - 1e-%d)" % (k, k)])
            return "%s %s" % (x, u)
        if r2 < 0.5:
            e = V.pick(rng)
            pw = rng.randint(1, 3) if rng.random() < 0.7 else rng.choice([9, 10, 11, 12, 25, 64, 99])       # (two-digit powers: every digit has to be printed)
            if rng.random() < 0.3:
                o = V.pick(rng)
                if o["key"] != e["key"]:
                    return "%s %s^%d/%s^%d" % (mag(rng)[0], o["word"], rng.choice([1, 2, 10, 12]), e["word"], pw)
            return "%s %s^-%d" % (mag(rng)[0], e["word"], pw)
        fs = V.rand_factors(rng, nmax=3)
        return "%s %s" % (mag(rng)[0], G.text(fs, rng))
    if r < 0.004:
        # huge whole numbers (2e4 to 4e4 digits), round ones (k * 10^m) and ones with a non-zero tail: whether the continuation mark is
        # printed depends on the digits that are cut off, not on how many there are (seed C19-h: a fast path for huge integers)
        k = rng.choice(["1", "25", "7", "1234567890123", "12345678901234567"])
        return "%se%d%s" % (k, rng.choice([19000, 19729, 19800, 20000, 25000, 40000]), rng.choice(["", "", " decade", " m", " + 7"]))
    if r < 0.03:
        # results whose exact rendering is a LONG line (500 to 3000 digits: long literals, powers, reciprocals of them) with no unit, a
        # unit with a numerator, or a denominator-only unit: fixed-size line buffers and their fallback paths (seed C19-g)
        nd = rng.choice([500, 1000, 1020, 1024, 1030, 1100, 2048, 3000])
        form = rng.randint(0, 3)
        if form == 0:
            num = "".join(rng.choice("123456789") for _ in range(nd))
        elif form == 1:
            b = rng.choice([3, 7, 11, 13])
            num = "%d ^ %d" % (b, int(nd / len(str(b ** 100)) * 100))
        elif form == 2:
            num = "1 / " + "".join(rng.choice("123456789") for _ in range(nd))
        else:
            num = "".join(rng.choice("123456789") for _ in range(nd // 2)) + " / " + "".join(rng.choice("1379") for _ in range(nd // 2))
        e = V.pick(rng)
        unit = rng.choice(["", " * 1 %s" % e["word"], " * 1 %s^-1" % e["word"], " * 1 %s^-2" % e["word"], " / 1 %s" % e["word"], " * 1 m/s", " / (1 s * 1 %s)" % e["word"]])
        return "(%s)%s" % (num, unit) if unit else num
    if r < 0.25:
        return value()
    if r < 0.5:
        return quantity()
    if r < 0.6:
        a = quantity()
        fs = V.rand_factors(rng, nmax=1)
        return "%s to %s" % (a, G.text(fs))            # mostly an error (illegal cast), sometimes fine
    if r < 0.7:
        return " ".join(rng.choice(facts)["tokens"])
    if r < 0.76:
        return "%s * %s" % (" ".join(rng.choice(facts)["tokens"]), quantity())
    if r < 0.79 and r >= 0.76 and getattr(V, "pluralisable", None):
        # consecutive results in the SAME unit, pluralisable and with a denominator or a power, values one and not one
        u = rng.choice(V.pluralisable)
        shape = rng.choice(["%s/min", "%s/s", "%s^2", "%s", "%s/m^2", "%s*s^-1", "%s^3/s"]) % u
        return " ".join("(%s %s)" % (rng.choice(["1", "3", "1", "0.5", "2", "1.0", "(2 - 1)", "1 / 0"]), shape) for _ in range(rng.randint(2, 5)))
    if r < 0.8:
        # several results: juxtaposed parenthesised expressions, some failing
        parts = []
        for _ in range(rng.choice([2, 2, 3, 3, 4, 4, 9, 17, 33])):
            parts.append(rng.choice(["(%s)" % value(), "(%s)" % quantity(), "(1 / 0)", "(1 m + 1 s)", "(round(2.5))", "(zzqqxx)"] + (getattr(V, "error_parts", None) or [])))
        return " ".join(parts)
    if rng.random() < 0.5 and extra:
        # the hostile families of C11 (token soups, structured queries with mutations, mutated corpus queries): every kind of
        # diagnostic the library can produce has to come out of the binary the same way
        import c11
        x = rng.random()
        s = c11.gen_soup(rng, extra["vocab"]) if x < 0.3 else c11.gen_structured(rng, extra["vocab"]) if x < 0.8 else c11.mutate(rng, rng.choice(extra["corpus"]))
        s = c11.bound_powers(s)
        if "\x00" not in s and len(s) < 300:
            return s
    return rng.choice(["1 / 0", "1 m + 1 s", "floor()", "1 +", ")", "5 %", "0 ^ -1", "1e3 m to s", "{a b}", "1 decade", "1 decades", "100 cm to m"])

def expected_stdout(items, exact_mode):
    out = []
    judged = []
    for it in items:
        if "ok" in it:
            o = it["ok"]
            n, dn = int(o["v"][0]), int(o["v"][1])
            if exact_mode:
                num = str(n) if dn == 1 else "%d/%d" % (n, dn)
            else:
                num = o["v12"]
                judged.append((n, dn, num))
            unit = o["disp_pl"] if (n, dn) != (1, 1) else o["disp"]
            some_positive = any(p > 0 for _, p, _ in o["u"])
            out.append(num + (" " if some_positive else "") + unit + "\n")
        else:
            out.append(it["err"].get("rendered", "error: " + it["err"]["msg"] + "\n"))
    return "".join(out), judged

def shard(p):
    acc = Acc()
    rng = rng_for(p["seed"], PID, p["shard"])
    d = Driver(p["vdriver"])
    env = dict(os.environ, XDG_DATA_HOME=p["home"], NO_COLOR="1")
    env.pop("RUST_LOG", None)
    try:
        V = G.Vocab(d)
        # which unit words have a plural spelling is asked of the library itself (Compound::display(true) vs (false))
        bare = [e for e in V.entries if e["bare"]]
        reps0 = d.call_many([{"op": "query", "q": "2 " + e["word"], "full": True} for e in bare], timeout=300)
        V.pluralisable = sorted({e["word"] for e, r0 in zip(bare, reps0) if len(r0.get("items") or []) == 1 and "ok" in r0["items"][0]
                                 and r0["items"][0]["ok"].get("disp") != r0["items"][0]["ok"].get("disp_pl")})
        acc.seen("pluralisable_unit_words", tuple(V.pluralisable))
        # one failing sub-expression per KIND of error the library can report (probed here, grouped by message shape): each has to
        # come out of the binary as a diagnostic without swallowing the results after it (seed C19-d)
        import re as _re
        ereps = d.call_many([{"op": "query", "q": c} for c in ERROR_CANDIDATES], timeout=300)
        kinds = {}
        for c, er in zip(ERROR_CANDIDATES, ereps):
            its = er.get("items") or []
            if len(its) == 1 and "err" in its[0]:
                k = _re.sub(r"`[^`]*`|[0-9]+|'[^']*'", "_", its[0]["err"]["msg"])[:40]
                kinds.setdefault(k, [])
                if len(kinds[k]) < 2:
                    kinds[k].append(c)
        V.error_parts = [c for cs in kinds.values() for c in cs]
        for k in kinds:
            acc.seen("error_kinds_in_multi_result_queries", k)
        readable = {}
        # every pair of documented units once as a product and as a quotient through the binary (this shard's share): a rendering rule
        # that depends on WHICH units stand next to each other (seed C19-j: the binary spells out `gforce` when a kilogram is in the
        # same unit) is a two-way interaction that random compounds of ~90 units almost never draw
        per_unit = {}
        for e in V.entries:
            if e["bare"] and (e["unit"] not in per_unit or len(e["word"]) < len(per_unit[e["unit"]]["word"])):
                per_unit[e["unit"]] = e
        uw = sorted(e["word"] for e in per_unit.values())
        pairs_ = [(a, b) for i_, a in enumerate(uw) for b in uw[i_ + 1:]]
        forced_q = ["(2 %s*%s) (1 %s/%s)" % (a, b, a, b) for a, b in pairs_[p["shard"] % 16::16]]
        acc.count("unit_pair_matrix_queries_through_the_binary", len(forced_q))
        for it_ in range(p["n"] + len(forced_q)):
            q = forced_q[it_ - p["n"]] if it_ >= p["n"] else gen_query(rng, V, p["facts"], {"vocab": p["vocab"], "corpus": p["corpus"]} if p.get("vocab") else None)
            exact_mode = rng.random() < 0.5
            # the query as several shell arguments (the binary joins them with one space): the query IS the joined text
            argv_q = [q]
            if rng.random() < 0.25 and " " in q.strip():
                parts = [x for x in q.split(" ")]
                cut = sorted(rng.sample(range(1, len(parts)), min(len(parts) - 1, rng.randint(1, 3))))
                argv_q, last = [], 0
                for c in cut + [len(parts)]:
                    argv_q.append(" ".join(parts[last:c]))
                    last = c
                if any(a.startswith("-") for a in argv_q):
                    argv_q = [q]
                else:
                    acc.count("invocations_with_the_query_split_over_several_arguments")
            rep = d.call({"op": "query", "q": q, "full": True, "render": True})
            if "panic" in rep or "items" not in rep:
                acc.count("library_panic_or_no_items")   # C11's business; the CLI comparison needs library results
                continue
            items = rep["items"]
            if any("display_panic" in it.get("ok", {}) for it in items):
                acc.count("library_display_panic")
                continue
            want, judged = expected_stdout(items, exact_mode)
            flags = ["--exact"] if exact_mode else []
            extra_flag = None
            xr = rng.random()
            if xr < 0.10:
                extra_flag = "--describe"       # the result lines stay what they are; a description section may follow
            elif xr < 0.15:
                extra_flag = "--syntax"         # the syntax tree is dumped first; the result lines follow unchanged
            if extra_flag:
                flags = flags + [extra_flag] if rng.random() < 0.5 else [extra_flag] + flags
                acc.count("invocations_with_" + extra_flag)
            args = [p["any"]] + flags + ["--"] + argv_q
            env_run = env
            if rng.random() < 0.12:
                env_run = dict(env, RUST_LOG=rng.choice(["trace", "anything=trace", "debug"]))      # logging must not change what is printed on stdout
                acc.count("invocations_with_logging_enabled")
            try:
                r = subprocess.run(args, env=env_run, stdout=subprocess.PIPE, stderr=subprocess.PIPE, timeout=120)
            except subprocess.TimeoutExpired:
                acc.inconc("any timed out on %r" % q)
                continue
            acc.evaluations += 1
            got = r.stdout.decode("utf-8", "replace")
            kinds = ["ok" if "ok" in it else "err" for it in items]
            has_unit = any(it.get("ok", {}).get("u") for it in items)
            if has_unit or len(items) > 1 or "err" in kinds:
                acc.nontriv(q + ("|exact" if exact_mode else ""))
            acc.count("exact_mode" if exact_mode else "decimal_mode")
            acc.count("results_ok", kinds.count("ok"))
            acc.count("results_err", kinds.count("err"))
            if len(items) > 1:
                acc.count("queries_with_several_results")
            for it in items:
                o = it.get("ok")
                if o and o["u"] and "disp_reparsed" in o:
                    # the unit text the library renders (and the binary prints), read back by the tool's own unit parser, denotes the
                    # unit that was computed - whatever the rendering conventions are (seed C03-i: a two-digit power below the fraction
                    # bar printed without its superscript)
                    # (only units whose own rendered name the parser reads back as that unit: `fl oz` with its blank is not one of them)
                    for key_, _pw, px_ in o["u"]:
                        if (key_, px_) not in readable:
                            r1 = d.call({"op": "compound_rt", "parts": [[key_, 1, px_]]})
                            r2 = d.call({"op": "compound", "s": r1["ok"]}) if isinstance(r1.get("ok"), str) else {}
                            readable[(key_, px_)] = bool(r2.get("ok")) and r2["ok"]["u"] == [[key_, 1, px_]]
                    if o["disp_reparsed"] is None or not all(readable[(k_, x_)] for k_, _p, x_ in o["u"]):
                        acc.count("rendered_unit_not_readable_back(no verdict)")
                    else:
                        acc.count("rendered_units_read_back")
                        if sorted(map(tuple, o["disp_reparsed"])) != sorted(map(tuple, o["u"])):
                            acc.violate("c19:rendered-unit-denotes-another-unit", "%r: the computed unit %s is rendered as %r, which reads back as %s" % (q, o["u"], o["disp"], o["disp_reparsed"]),
                                        {"query": q, "exact": exact_mode, "computed_unit": o["u"], "rendered": o["disp"], "read_back": o["disp_reparsed"]})
            for it in items:
                o = it.get("ok")
                if o and o["u"]:
                    pos = any(pw > 0 for _, pw, _ in o["u"])
                    acc.count("unit_with_numerator" if pos else "unit_denominator_only")
                    if o["disp"] != o["disp_pl"]:
                        acc.count("pluralisable_value_is_one" if o["v"] == ["1", "1"] else "pluralisable_value_not_one")
            case = {"query": q, "exact": exact_mode, "expected_stdout": want, "observed_stdout": got, "exit_status": r.returncode,
                    "stderr": r.stderr.decode("utf-8", "replace")[-500:]}
            if r.returncode != 0:
                acc.violate("c19:exit-status", "`any%s -- %r` exited with %d: %s" % (" --exact" if exact_mode else "", q, r.returncode, case["stderr"][-200:]), case)
                continue
            if extra_flag == "--describe" and got.startswith(want) and (got == want or got[len(want):].startswith("# Description of constants used")):
                got = want
            elif extra_flag == "--syntax" and got.endswith(want) and (want or got):
                got = want
            if got != want:
                # classify
                gl, wl = got.split("\n"), want.split("\n")
                tag = "lines" if len(gl) != len(wl) else "text"
                if tag == "text":
                    for a, b in zip(gl, wl):
                        if a != b:
                            if a.replace(" ", "") == b.replace(" ", ""):
                                tag = "spacing"
                            elif a.rstrip("s") == b.rstrip("s") or a.replace("ies", "y") == b.replace("ies", "y"):
                                tag = "plural"
                            elif exact_mode:
                                tag = "exact-number"
                            else:
                                tag = "decimal-number"
                            break
                acc.violate("c19:stdout-differs:" + tag, "`any%s -- %r` printed %r, the library's results render as %r" % (" --exact" if exact_mode else "", q, got[:300], want[:300]), case)
                continue
            bad = None
            for n, dn, text in judged:
                w = py_judge(n, dn, text)
                acc.count("decimal_renderings_judged")
                if w:
                    bad = (n, dn, text, w)
            if bad:
                acc.violate("c19:decimal-unfaithful", "%r printed %r for %s/%s: %s" % (q, bad[2], bad[0], bad[1], bad[3]), case)
                continue
            acc.sample({"argv": args[1:], "stdout": got}, cap=1)
    finally:
        d.close()
    return acc

def run(tier, seed):
    t0 = time.time()
    b = build.build("dbg")
    with Driver(b["vdriver"]) as d:
        facts, _ = FX.load(d)
    ty = [{"tokens": f["tokens"]} for f in facts if FX.typeable(f["tokens"])]
    home = tempfile.mkdtemp(prefix="c19-")
    try:
        # build the on-disk index once
        r = subprocess.run([b["any"], "--", "1"], env=dict(os.environ, XDG_DATA_HOME=home), stdout=subprocess.PIPE, stderr=subprocess.PIPE, timeout=300)
        if r.returncode != 0:
            print("C19: INCONCLUSIVE - `any 1` failed to build its index: %s" % r.stderr.decode()[-500:])
            return 2
        n = 6400 if tier == "quick" else 100000
        import c11
        fwords = sorted({t for f in facts for t in f["tokens"] if FX.WORD.match(t)})
        from core import units_ref as R
        vocab = {"units": sorted(R.NAME2UNITS) + ["m^2", "s^-1", "km/h", "kg*m/s^2", "°C", "°F"], "facts": fwords}
        corp = c11.corpus()
        br = build.build("rel")      # every fourth shard runs the release build of the real main (and of the library it is compared with)
        payloads = [{"seed": seed, "shard": i, "n": n // NCPU, "facts": ty, "vdriver": (br if i % 4 == 3 else b)["vdriver"], "any": (br if i % 4 == 3 else b)["any"], "home": home,
                     "vocab": vocab, "corpus": corp} for i in range(NCPU)]
        acc = run_shards(shard, payloads)
    finally:
        shutil.rmtree(home, ignore_errors=True)
    return finish(PID, tier, seed, "exploration", acc, RULE, t0,
                  assumptions=["the library results for the same query come from vdriver (same build of /repo); diagnostics are rendered by codespan-reporting with its default config in both",
                               "the query is passed as one argument after `--` (a leading `-` would otherwise be read as an option)"],
                  min_eval=300)

def replay(path):
    v = json.load(open(path))
    c = v["case"]
    b = build.build("dbg")
    home = tempfile.mkdtemp(prefix="c19r-")
    try:
        r = subprocess.run([b["any"]] + (["--exact"] if c["exact"] else []) + ["--", c["query"]], env=dict(os.environ, XDG_DATA_HOME=home), stdout=subprocess.PIPE, stderr=subprocess.PIPE)
        print(json.dumps({"query": c["query"], "exact": c["exact"], "expected_stdout": c["expected_stdout"], "stdout_now": r.stdout.decode("utf-8", "replace"), "status": r.returncode}, ensure_ascii=False))
    finally:
        shutil.rmtree(home, ignore_errors=True)
    return 0
