"""C13 - quantity arithmetic obeys the field laws, including looked-up facts."""
import json, re, time
from fractions import Fraction as F
from core import build, unitgen as G, units_ref as R, facts as FX
from core.driver import Driver, DriverDied, DriverTimeout
from core import multi
from core.run import Acc, finish, rng_for, run_shards, NCPU
from c02 import mag

PID = "C13"
LAWS = ["add-comm", "mul-comm", "add-assoc", "mul-assoc", "distrib", "sub-self", "div-self"]
RULE = ("operands are literals `x U` over the whole non-offset vocabulary (prefixes, powers, compounds) and every typeable shipped fact by "
        "its own words; triples are drawn per dimension class; for each triple the seven laws a+b=b+a, a*b=b*a, (a+b)+c=a+(b+c), "
        "(a*b)*c=a*(b*c), a*(b+c)=a*b+a*c, a-a=0 [dims a], a/a=1 [dimensionless] are evaluated as two queries each against ONE database "
        "instance and compared after SI normalisation (same base-SI value, same base dimensions); one side Ok and the other Err is a "
        "violation. non-trivial = distinct law instance involving a fact or a derived/prefixed unit")

def one(rep):
    if "panic" in rep:
        return ("panic", rep["panic"])
    items = rep.get("items") or []
    if len(items) == 1 and "ok" in items[0]:
        return ("ok", items[0])
    return ("err", [it.get("err", {}).get("msg", "ok?") for it in items])

def shard(p):
    acc = Acc()
    rng = rng_for(p["seed"], PID, p["shard"])
    # every fourth shard evaluates with a logger installed at trace level (RUST_LOG): enabling logging must not change any result.
    # (The vocabulary - which words mean what, measured scales - comes from a plain driver: a fault that logging switches on must not
    # also shift the yardstick.)
    log_env = {"RUST_LOG": "anything=trace"} if p["shard"] % 4 == 3 else None
    d = Driver(p["bin"], env=log_env)
    try:
        if log_env:
            acc.context = {"trace_logging": True}
            acc.count("shards_with_trace_logging_enabled")
            with Driver(p["bin"]) as d_plain:
                V = G.Vocab(d_plain)
        else:
            V = G.Vocab(d)
        # operand pool: (text, si, dims, is_fact)
        pool = []
        cand = []
        for f in p["facts"]:
            cand.append((" ".join(f["tokens"]), True))
            if p.get("neighbours_only") and f.get("description"):
                # the fact addressed by the words of its DESCRIPTION (natural-language phrases share much longer prefixes than the
                # search tokens do: `length of a solar day on the planet mars` / `... venus`); used only if it evaluates to one value
                ws = [w for w in re.sub(r"[^A-Za-z0-9°' ]", " ", f["description"]).split() if w.lower() != "to"]
                if ws and not ws[0][0].isdigit() and not any(w[0].isdigit() for w in ws):
                    cand.append((" ".join(ws).lower(), True))
        for _ in range(p["n_lit"]):
            fs = V.rand_factors(rng, nmax=rng.choice([1, 1, 2, 3]) if rng.random() < 0.96 else rng.choice([9, 12, 16]))      # a few literals of 9+ distinct units (seed C13-i)
            xs, x = mag(rng)
            cand.append(("%s %s" % (xs, G.text(fs, rng)), False))
        reps = d.call_many([{"op": "query", "q": t} for t, _ in cand], timeout=600)
        for (t, isf), rep in zip(cand, reps):
            k, it = one(rep)
            if k != "ok":
                acc.count("operands_not_evaluable")
                continue
            try:
                v, dims = V.norm_item(it)
            except (G.si.OffsetUnit, G.si.UnknownKey):
                acc.count("operands_with_offset_unit_skipped")
                continue
            # sums only combine plain numbers with plain numbers and unit-carrying quantities with unit-carrying ones:
            # C02 (given) lets a plain number *adopt* the other operand's unit, which by design is not a field operation
            pool.append((t, v, (dims, not it["ok"]["u"]), isf))
        by_dims = {}
        for o in pool:
            by_dims.setdefault(o[2], []).append(o)
        facts_ops = [o for o in pool if o[3]]
        checks = []
        def pick_class(a):
            return rng.choice(by_dims[a[2]])
        order = list(facts_ops)
        rng.shuffle(order)
        firsts = order + [rng.choice(pool) for _ in range(p["n_triples"])]
        if p.get("neighbours_only"):
            firsts = []
        for a in firsts:
            b, c = pick_class(a), pick_class(a)
            pos = rng.randrange(3)
            trip = [b, c]
            trip.insert(pos, a)          # every fact appears in each position over time
            a_, b_, c_ = trip
            A, B, C = a_[0], b_[0], c_[0]
            x = rng.choice(pool)          # an operand of arbitrary dimension for the multiplicative laws
            y = rng.choice(pool)
            X, Y = x[0], y[0]
            inst = [
                ("add-comm", "%s + %s" % (A, B), "%s + %s" % (B, A), None),
                ("mul-comm", "%s * %s" % (A, X), "%s * %s" % (X, A), None),
                ("add-assoc", "(%s + %s) + %s" % (A, B, C), "%s + (%s + %s)" % (A, B, C), None),
                ("mul-assoc", "(%s * %s) * %s" % (A, X, Y), "%s * (%s * %s)" % (A, X, Y), None),
                ("distrib", "%s * (%s + %s)" % (X, A, B), "%s * %s + %s * %s" % (X, A, X, B), None),
                ("sub-self", "%s - %s" % (A, A), None, (F(0), a_[2][0])),
            ]
            if a_[1] != 0:
                inst.append(("div-self", "%s / %s" % (A, A), None, (F(1), R.ZERO_DIMS)))
            isfact = a_[3] or b_[3] or c_[3]
            for law, q1, q2, const in inst:
                checks.append((law, q1, q2, const, isfact or x[3] or y[3]))
        # near-duplicate operands: facts whose phrases share a long prefix (neighbours in sorted order, e.g. `population less developed
        # regions excluding china` / `... excluding least developed countries`), both in ONE expression: whatever the evaluator
        # remembers about a phrase within a query must not confuse them (seed C13-f)
        fsorted = sorted((o for o in pool if o[3]), key=lambda o: o[0])
        for a_, b_ in zip(fsorted, fsorted[1:]):
            if a_[2] != b_[2]:
                continue
            k = 0
            while k < min(len(a_[0]), len(b_[0])) and a_[0][k] == b_[0][k]:
                k += 1
            if k < 12:
                continue
            A, B = a_[0], b_[0]
            checks.append(("add-comm", "%s + %s" % (A, B), "%s + %s" % (B, A), None, True))
            checks.append(("mul-comm", "%s * %s" % (A, B), "%s * %s" % (B, A), None, True))
            checks.append(("sub-self", "(%s - %s) + %s - %s" % (A, B, B, A), None, (F(0), a_[2][0]), True))
        if p.get("neighbours_only"):
            # ... and pairs of facts addressed through phrases that share a LONG prefix by construction: the same run of words the
            # database does not know (they change no answer) in front of each fact's own words
            pads = ["qqzz " * k for k in (4, 7, 13, 26)] + ["the value of the quantity that is known as the ", "xq " * 11]
            fl = [o for o in pool if o[3]]
            for _ in range(160):
                a_ = rng.choice(fl)
                b_ = rng.choice(by_dims[a_[2]])
                if not b_[3] or a_[0] == b_[0]:
                    continue
                pad = rng.choice(pads)
                A, B = pad + a_[0], pad + b_[0]
                checks.append(("add-comm", "%s + %s" % (A, B), "%s + %s" % (B, A), None, True))
                checks.append(("mul-comm", "%s * %s" % (A, B), "%s * %s" % (B, A), None, True))
                checks.append(("add-assoc", "(%s + %s) + %s" % (A, B, A), "%s + (%s + %s)" % (A, B, A), None, True))
        # products in which ONE unit recurs in all three operands, so that its power accumulates (au^-2 * au^-2 * s ...): the
        # multiplicative laws on exactly the operands whose intermediate results differ most between the two groupings (seed C13-e)
        for _ in range(p["n_triples"] // 4):
            e = V.pick(rng)
            ops3 = []
            for _k in range(3):
                fs = [(e, rng.choice([-3, -2, -2, -1, 1, 2, 3]))]
                if rng.random() < 0.4:
                    o = V.pick(rng)
                    if o["key"] != e["key"]:
                        fs.append((o, rng.choice([1, -1])))
                xs, x = mag(rng)
                if x == 0:
                    xs = "3"
                ops3.append("%s %s" % (xs, G.text(fs, rng)))
            A, X, Y = ops3
            checks.append(("mul-assoc", "(%s * %s) * %s" % (A, X, Y), "%s * (%s * %s)" % (A, X, Y), None, False))
            checks.append(("mul-comm", "(%s * %s) * %s" % (A, X, Y), "%s * (%s * %s)" % (Y, X, A), None, False))
            checks.append(("mul-assoc", "(%s / %s) / %s" % (A, X, Y), "%s / (%s * %s)" % (A, X, Y), None, False))
        reqs = []
        for law, q1, q2, const, _ in checks:
            reqs.append({"op": "query", "q": q1})
            if q2:
                reqs.append({"op": "query", "q": q2})
        reps = []
        for i in range(0, len(reqs), 3000):
            try:
                reps += d.call_many(reqs[i:i + 3000], timeout=600)
            except (DriverDied, DriverTimeout) as ex:
                acc.inconc("driver: %r" % (ex,))
                return acc
        pos = 0
        for law, q1, q2, const, isfact in checks:
            r1 = one(reps[pos]); pos += 1
            r2 = None
            if q2:
                r2 = one(reps[pos]); pos += 1
            acc.evaluations += 1
            acc.count("law_" + law)
            if isfact:
                acc.count("instances_with_a_fact")
            if isfact or any(ch.isupper() for ch in q1) or "^" in q1:
                acc.nontriv(law + q1)
            case = {"law": law, "lhs": q1, "rhs": q2, "build": p["kind"]}
            if r1[0] == "panic" or (r2 and r2[0] == "panic"):
                acc.violate("c13:panic", "%s: %r / %r panicked: %s" % (law, q1, q2, r1 if r1[0] == "panic" else r2), case)
                continue
            try:
                n1 = V.norm_item(r1[1]) if r1[0] == "ok" else None
                n2 = (V.norm_item(r2[1]) if r2[0] == "ok" else None) if r2 else const
            except (G.si.OffsetUnit, G.si.UnknownKey) as ex:
                acc.inconc("cannot normalise: %r" % (ex,))
                continue
            case["observed"] = [str(n1), str(n2)]
            if n1 is None and n2 is None:
                acc.count("both_sides_rejected")
                continue
            if n1 is None or n2 is None:
                acc.violate("c13:%s:one-side-rejected" % law, "%s: %r -> %s but %r -> %s" % (law, q1, r1[1] if n1 is None else "a value", q2 or "(constant)", (r2[1] if r2 else None) if n2 is None else "a value"), case)
                continue
            if n1 != n2:
                acc.violate("c13:%s:unequal" % law, "%s: %r = %s [%s] but %s = %s [%s]" % (law, q1, n1[0], G.si.fmt_dims(n1[1]), q2 or "the law's constant", n2[0], G.si.fmt_dims(n2[1])), case)
            else:
                acc.sample({"law": law, "lhs": q1, "rhs": q2 or str(const[0]), "si_value": str(n1[0]), "dims": G.si.fmt_dims(n1[1])}, cap=1)
        # several expressions in one query string: each gives what it gives alone (core/multi.py)
        _qs = [r["q"] for r in reqs if len(r["q"]) < 300]
        multi.stage(acc, d, rng.sample(_qs, min(len(_qs), 300)), rng, 200, PID, p.get("kind", "dbg"))
    finally:
        d.close()
    return acc

def run(tier, seed):
    t0 = time.time()
    bins = {k: build.build(k)["vdriver"] for k in ("dbg", "rel")}
    with Driver(bins["dbg"]) as d:
        facts, _ = FX.load(d)
    ty = [{"tokens": f["tokens"], "description": f["description"]} for f in facts if FX.typeable(f["tokens"])]
    nlit, ntrip = (600, 700) if tier == "quick" else (3000, 9000)
    payloads = [{"seed": seed, "shard": i, "facts": ty[i::NCPU] if tier == "quick" else ty, "n_lit": nlit, "n_triples": ntrip, "bin": bins["dbg"], "kind": "dbg"} for i in range(NCPU)]
    payloads += [{"seed": seed, "shard": 100 + i, "facts": ty[i::NCPU], "n_lit": nlit // 3, "n_triples": ntrip // 3, "bin": bins["rel"], "kind": "rel"} for i in range(NCPU)]
    payloads.append({"seed": seed, "shard": 50, "facts": ty, "n_lit": 0, "n_triples": 0, "bin": bins["dbg"], "kind": "dbg", "neighbours_only": True})    # all facts together: sorted neighbours
    acc = run_shards(shard, payloads)
    acc.counters["typeable_facts"] = len(ty)
    return finish(PID, tier, seed, "exploration", acc, RULE, t0,
                  assumptions=["all evaluations of one shard share one Db instance, so an ambiguous phrase (C14) cannot masquerade as a broken law",
                               "SI normalisation uses the frozen exponent vectors and the measured per-unit scales (validity of scales: C05)"],
                  min_eval=1000)

def replay(path):
    v = json.load(open(path))
    c = v["case"]
    from core.driver import replay_env
    with Driver(build.build(c.get("build", "dbg"))["vdriver"], env=replay_env(c)) as d:
        print(json.dumps({"law": c["law"], "lhs": [c["lhs"], d.call({"op": "query", "q": c["lhs"]}).get("items")],
                          "rhs": [c["rhs"], d.call({"op": "query", "q": c["rhs"]}).get("items") if c["rhs"] else None]}, ensure_ascii=False))
    return 0
