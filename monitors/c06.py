"""C06 - operator precedence, associativity, grouping and blank-insensitivity."""
import itertools, json, time
from fractions import Fraction
from core import build, exact
from core.driver import Driver, DriverDied, DriverTimeout
from core.run import Acc, finish, rng_for, run_shards, NCPU

PID = "C06"
OPS = "+-*/^"
PRIMES = [2, 3, 5, 7, 11, 13]
BLANKS = [" ", "  ", "\t", " \t ", "   "]
WS_CANDIDATES = ["\t", "\n", "\u000b", "\u000c", "\r", " ", "\u0085", "\u00a0", "\u1680"] + [chr(c) for c in range(0x2000, 0x200b)] + ["\u2028", "\u2029", "\u202f", "\u205f", "\u3000"]
TOOL_BLANKS = [" ", "\t"]      # set by discover_blanks(): the characters THIS build's lexer treats as a blank in some context

def discover_blanks(binp):
    """Which characters are blanks is asked of the tool, not assumed: c counts iff the real lexer turns `c`, ` c` or `c ` into one
    single WHITESPACE token. Space and tab are blanks by the property's own words. The property then demands that every such
    character is a blank wherever a blank may stand, alone or inside a run (a tool that only knows ASCII blanks is not alarmed;
    one that takes U+00A0 after a space but not before it is: seeds C05-c, C06-c)."""
    found = [" ", "\t"]
    with Driver(binp) as d:
        for c in WS_CANDIDATES:
            if c in found:
                continue
            for s in (c, " " + c, c + " "):
                r = d.call({"op": "lex", "s": s})
                toks = (r.get("ok") or {}).get("tokens")
                if toks and len(toks) == 1 and toks[0][0] == "WHITESPACE" and toks[0][1] == len(s.encode("utf-8")):
                    found.append(c)
                    break
    return found

def blank_run(rng):
    n = rng.choice([1, 1, 2, 2, 3])
    return "".join(rng.choice(TOOL_BLANKS) if rng.random() < 0.7 else rng.choice([" ", "\t"]) for _ in range(n))
RULE = ("exhaustive: every operator sequence of length 1..5 over {+,-,*,/,^} x every binary bracketing (1,2,5,14,42) with small "
        "distinct prime operands; each shape is spelled with explicit parentheses and with the minimal parentheses the documented "
        "grammar needs (flat where the bracketing is the default one) and laid out with several blank layouts (none where allowed, "
        "one/several spaces, tabs, leading/trailing blanks, and runs mixing every character the build's own lexer treats as a blank - asked of "
        "the tool at the start of the run); the result list must be exactly [exact value of the intended tree] for "
        "every spelling and layout, so all layouts agree. A shape is *discriminating* if its value is unique among all bracketings of "
        "the same operator/operand sequence. Plus parenthesised operands as function arguments, `to` with length units, and random "
        "deeper trees with random layouts, and one-sided nestings of 5-40 parenthesised levels (continued fractions, Horner schemes, nested calls). non-trivial = distinct discriminating shape, or distinct to/function/random case with >=2 operators")

# ---------------------------------------------------------------- shapes
def bracketings(n):
    """All binary tree shapes over leaves 0..n (n operators): nested tuples of leaf indices."""
    def build_(lo, hi):
        if lo == hi:
            yield lo
            return
        for k in range(lo, hi):
            for l in build_(lo, k):
                for r in build_(k + 1, hi):
                    yield (l, k, r)          # operator index k sits between leaf k and k+1
    return list(build_(0, n))

def to_tree(shape, ops, leaves):
    if isinstance(shape, int):
        return ("lit", str(leaves[shape]), Fraction(leaves[shape]))
    l, k, r = shape
    return ("bin", ops[k], to_tree(l, ops, leaves), to_tree(r, ops, leaves))

def tokens(t, style):
    k = t[0]
    if k == "lit":
        return [t[1]]
    if k == "call":
        out = [t[1] + "("]
        for i, a in enumerate(t[2]):
            if i:
                out.append(",")
            out += tokens(a, style)
        return out + [")"]
    if k == "paren":
        return ["("] + tokens(t[1], style) + [")"]
    if k == "to":
        return tokens_wrapped(t[1], style, 1, False) + ["to", t[2]]
    op = t[1]
    return tokens_wrapped(t[2], style, exact.PREC[op], False) + [op] + tokens_wrapped(t[3], style, exact.PREC[op], True)

def tprec(t):
    if t[0] == "bin":
        return exact.PREC[t[1]]
    if t[0] == "to":
        return 1
    return 100

def tokens_wrapped(t, style, parent_prec, right):
    inner = tokens(t, style)
    if t[0] in ("bin", "to"):
        need = tprec(t) < parent_prec or (right and tprec(t) <= parent_prec)
        if style == "full" or need:
            return ["("] + inner + [")"]
    return inner

def layout(toks, rng, mode, units=False):
    """mode: 'single' (canonical single blanks around binary operators), 'tight' (no blank wherever allowed), 'random'."""
    out = []
    lead = trail = ""
    if mode == "random":
        lead = rng.choice(["", "", " ", "\t", "  "])
        trail = rng.choice(["", "", " ", "\t", "  "])
    elif mode == "unicode":
        lead = rng.choice(["", blank_run(rng)])
        trail = rng.choice(["", blank_run(rng)])
    if mode in ("random", "unicode") and rng.random() < 0.3:
        toks = [("**" if t == "^" else t) for t in toks]        # the other spelling of the power operator
    for i, tk in enumerate(toks):
        if i:
            a = toks[i - 1]
            required = a in ("+", "-", "to") or tk in ("+", "-", "to")
            if units and (a in ("*", "/", "^", "**") or tk in ("*", "/", "^", "**")):
                required = True
            if a == ")" and tk in ("*", "/", "^", "**", "to"):
                required = False      # a closing parenthesis ends whatever unit stands before it: `(10 J to N m)*2`, `(1 kWh to W s)to J`
            tight_ok = not required
            binary = a in ("+", "-", "*", "/", "^", "**", "to") or tk in ("+", "-", "*", "/", "^", "**", "to")
            if mode == "single":
                out.append(" " if binary else "")
            elif mode == "tight":
                out.append("" if tight_ok else " ")
            elif mode == "unicode":
                out.append("" if tight_ok and rng.random() < 0.25 else blank_run(rng))
            else:
                choices = BLANKS + ([""] * 3 if tight_ok else [])
                out.append(rng.choice(choices))
        out.append(tk)
    return lead + "".join(out) + trail

# ---------------------------------------------------------------- judging
def judge(acc, text, want, rep, tag, case_extra):
    case = dict(case_extra, query=text, expected=str(want))
    if "panic" in rep:
        acc.violate("c06:panic:" + str(rep.get("panic_loc")), "%r panicked: %s" % (text, rep["panic"]), dict(case, observed=rep["panic"]))
        return False
    items = rep.get("items")
    if items is None:
        acc.violate("c06:no-result", "%r: %s" % (text, rep), case)
        return False
    obs = []
    for it in items:
        if "ok" in it:
            obs.append(("ok", it["ok"]["v"], it["ok"]["u"]))
        else:
            obs.append(("err", it["err"]["msg"]))
    case["observed"] = obs
    if want == "error":
        if len(obs) != 1 or obs[0][0] != "err":
            acc.violate("c06:%s:not-an-error" % tag, "%r groups left to right into an undefined power (non-integer exponent or zero to a negative power) but gave %s" % (text, obs), case)
            return False
        return True
    if len(obs) != 1 or obs[0][0] != "ok":
        acc.violate("c06:%s:wrong-result-list" % tag, "%r should give exactly [%s] but gave %s" % (text, want, obs), case)
        return False
    got = Fraction(int(obs[0][1][0]), int(obs[0][1][1]))
    if isinstance(want, tuple):
        wv, wu = want
        if got != wv or obs[0][2] != wu:
            acc.violate("c06:%s:wrong-value" % tag, "%r should be %s %s but is %s %s" % (text, wv, wu, got, obs[0][2]), case)
            return False
    elif got != want or obs[0][2]:
        acc.violate("c06:%s:wrong-value" % tag, "%r should be %s but is %s %s" % (text, want, got, obs[0][2] or ""), case)
        return False
    return True

def shard_shapes(p):
    acc = Acc()
    if str(p.get("shard", "0"))[-1] in "37":
        acc.context = {"trace_logging": True}
    exact.MAX_BITS, exact.MAX_EXP = 2500, 160     # keep the tool's repeated-multiplication power loop cheap
    rng = rng_for(p["seed"], PID, "shapes", p["shard"])
    work = p["work"]          # list of (ops string)
    d = Driver(p["bin"], env={"RUST_LOG": "anything=trace"} if str(p.get("shard", "0"))[-1] in "37" else None)      # every fourth shard: trace logging enabled
    try:
        for ops in work:
            n = len(ops)
            leaves = list(PRIMES[:n + 1])
            rng.shuffle(leaves)
            shapes = bracketings(n)
            vals = []
            for sh in shapes:
                # exponent leaves: small so that towers stay finite
                lv = list(leaves)
                t = to_tree(sh, ops, lv)
                try:
                    v = exact.ev(t)
                except exact.DivZero:
                    v = "divzero"
                except (exact.DontCare, exact.TooBig):
                    v = None
                vals.append((sh, t, v))
            counts = {}
            for _, _, v in vals:
                counts[v] = counts.get(v, 0) + 1
            if p["sample_shapes"] and len(shapes) > p["sample_shapes"]:
                vals = rng.sample(vals, p["sample_shapes"])
            reqs, meta = [], []
            for sh, t, v in vals:
                if v is None or v == "divzero":
                    acc.count("shapes_skipped_undefined")
                    continue
                acc.count("shapes")
                disc = counts[v] == 1
                if disc:
                    acc.count("discriminating_shapes")
                spell = []
                for style in ("full", "min"):
                    tk = tokens(t, style)
                    spell.append((style, "single", layout(tk, rng, "single")))
                    spell.append((style, "tight", layout(tk, rng, "tight")))
                    for _ in range(p["layouts"]):
                        spell.append((style, "random", layout(tk, rng, "random")))
                    spell.append((style, "unicode", layout(tk, rng, "unicode")))
                seen = set()
                for style, mode, text in spell:
                    if text in seen:
                        continue
                    seen.add(text)
                    reqs.append({"op": "query", "q": text})
                    meta.append((ops, sh, v, disc, style, mode, text))
            if not reqs:
                continue
            try:
                reps = d.call_many(reqs, timeout=120)
            except (DriverDied, DriverTimeout) as ex:
                acc.inconc("driver: %r" % (ex,))
                d.restart()
                continue
            per_shape = {}
            for (ops_, sh, v, disc, style, mode, text), rep in zip(meta, reps):
                acc.evaluations += 1
                acc.count("layout_" + mode)
                ok = judge(acc, text, v, rep, "shape:%s:%s" % (style, mode), {"ops": ops_, "shape": repr(sh), "build": p["kind"]})
                key = (ops_, repr(sh))
                per_shape.setdefault(key, set()).add(json.dumps(rep.get("items"), sort_keys=True))
                if disc:
                    acc.nontriv(ops_ + repr(sh))
                if ok and style == "min" and mode == "random":
                    acc.sample({"query": text, "value": str(v), "discriminating": disc}, cap=1)
            for key, lists in per_shape.items():
                acc.count("shapes_with_one_result_list" if len(lists) == 1 else "shapes_with_differing_result_lists")
    finally:
        d.close()
    return acc

# ---------------------------------------------------------------- `to`, functions, random
LEN = {"m": Fraction(1), "cm": Fraction(1, 100), "km": Fraction(1000), "mm": Fraction(1, 1000), "ft": Fraction(3048, 10000), "in": Fraction(254, 10000)}
PARTS = {"m": [["Meter", 1, 0]], "cm": [["Meter", 1, -2]], "km": [["Meter", 1, 3]], "mm": [["Meter", 1, -3]],
         "ft": [["D:d3c90001", 1, 0]], "in": [["D:d3c90000", 1, 0]]}

def ev_q(t):
    """Mini model for the `to` family: returns (value, unit name or None)."""
    k = t[0]
    if k == "lit":
        return t[2], t[3]
    if k == "paren":
        return ev_q(t[1])
    if k == "to":
        v, u = ev_q(t[1])
        return v * LEN[u] / LEN[t[2]], t[2]
    op = t[1]
    (a, ua), (b, ub) = ev_q(t[2]), ev_q(t[3])
    if op in "+-":
        if ua is None and ub is None:
            return (a + b if op == "+" else a - b), None
        u = ua if ua is not None else ub
        if ua is None:
            a2, b2 = a, b
        elif ub is None:
            a2, b2 = a, b
        else:
            a2, b2 = a, b * LEN[ub] / LEN[ua]
        return (a2 + b2 if op == "+" else a2 - b2), u
    if op == "*":
        assert ua is None or ub is None
        return a * b, ua if ua is not None else ub
    raise ValueError(op)

def qlit(rng, unit=True):
    v = rng.randint(1, 40)
    if unit:
        u = rng.choice(list(LEN))
        return ("lit", "%d%s" % (v, u), Fraction(v), u)
    return ("lit", str(v), Fraction(v), None)

def gen_to(rng):
    form = rng.randint(0, 6)
    a, b, c = qlit(rng), qlit(rng), qlit(rng)
    u1, u2 = rng.choice(list(LEN)), rng.choice(list(LEN))
    k = qlit(rng, False)
    if form == 0:
        return ("to", ("bin", rng.choice("+-"), a, b), u1)                                  # a + b to u   == (a + b) to u
    if form == 1:
        return ("bin", rng.choice("+-"), ("to", a, u1), b)                                  # (a to u) + b
    if form == 2:
        return ("to", ("to", a, u1), u2)                                                    # a to u1 to u2
    if form == 3:
        return ("to", ("bin", rng.choice("+-"), ("bin", "*", k, a), b), u1)                 # k * a + b to u
    if form == 4:
        return ("to", ("bin", rng.choice("+-"), a, ("bin", "*", k, b)), u1)                 # a + k * b to u
    if form == 5:
        return ("bin", rng.choice("+-"), a, ("to", b, u1))                                  # a + (b to u)
    return ("to", ("bin", rng.choice("+-"), ("bin", rng.choice("+-"), a, b), c), u1)       # a + b - c to u

# casts to compound units written as blank-separated components, inside parentheses or call arguments, followed by more operators
# (seed C06-g: the blank bookkeeping of the unit parser leaks into the operator loop only for a target of >= 2 components that is
# directly followed by `)` and an operator): (source text, target components, exact factor)
CASTS2 = [("J", ["N", "m"], 1), ("kWh", ["W", "s"], 3600000), ("km h", ["m", "s"], 3600000), ("N s", ["kg", "m/s"], 1), ("W", ["J/s"], 1),
          ("J", ["kg", "m^2/s^2"], 1), ("C", ["A", "s"], 1), ("Wh", ["J"], 3600), ("N m", ["J"], 1), ("V A s", ["N", "m"], 1),
          ("Pa m^2", ["kg", "m", "s^-2"], 1), ("km", ["m"], 1000)]

def gen_cast2(rng):
    """Returns (token list, exact value or None when only layout agreement is judged)."""
    src, comps, f = rng.choice(CASTS2)
    x, k = rng.randint(1, 40), rng.randint(2, 9)
    tgt = rng.choice([" ", " ", "  ", "\t"]).join(comps)
    cast = ["%d %s" % (x, src), "to", tgt]
    form = rng.randint(0, 8)
    v = Fraction(x * f)
    if form == 0:
        return ["("] + cast + [")", "*", str(k)], v * k
    if form == 1:
        return ["("] + cast + [")", "/", str(k)], v / k
    if form == 2:
        return [str(k), "*", "("] + cast + [")"], v * k
    if form == 3:
        fn = rng.choice(["round", "floor", "ceil"])
        return [fn + "("] + cast + [")", rng.choice(["*", "/"]), "1"], v
    if form == 4:
        return ["round("] + cast + [",", str(rng.randint(0, 3)), ")", "*", str(k)], v * k
    if form == 5:
        return ["("] + cast + [")", "to", src], Fraction(x)
    if form == 6:
        return ["(", "("] + cast + [")", ")", "*", str(k)], v * k
    if form == 7:
        return ["("] + cast + [")", "^", "2"], v * v
    return [str(k), "+", "("] + cast + [")", "*", "3", "^", "2", "-", str(k)], v * 9

def ev_calls(t):
    """exact.ev for trees that also contain ('call', 'round', [x])."""
    if t[0] == "call":
        return exact.call(t[1], [ev_calls(a) for a in t[2]])
    if t[0] == "bin":
        a, b = ev_calls(t[2]), ev_calls(t[3])
        return exact.ev(("bin", t[1], ("lit", "", a), ("lit", "", b)))
    return exact.ev(t)

def shard_misc(p):
    acc = Acc()
    if str(p.get("shard", "0"))[-1] in "37":
        acc.context = {"trace_logging": True}
    exact.MAX_BITS, exact.MAX_EXP = 6000, 160
    rng = rng_for(p["seed"], PID, "misc", p["shard"])
    d = Driver(p["bin"], env={"RUST_LOG": "anything=trace"} if str(p.get("shard", "0"))[-1] in "37" else None)      # every fourth shard: trace logging enabled
    try:
        reqs, meta = [], []
        for _ in range(p["n_to"]):
            t = gen_to(rng)
            v, u = ev_q(t)
            for style in ("full", "min"):
                tk = tokens(t, style)
                for mode in ("single", "random", "random", "unicode"):
                    text = layout(tk, rng, mode, units=True)
                    reqs.append({"op": "query", "q": text})
                    meta.append(("to:" + style + ":" + mode, text, (v, PARTS[u]), 2))
        cast2 = []
        for _ in range(p["n_to"]):
            tk, v = gen_cast2(rng)
            cast2.append((tk, v, [layout(tk, rng, m, units=True) for m in ("single", "tight", "tight", "random", "random", "unicode")]))
        try:
            creps = d.call_many([{"op": "query", "q": ls[0]} for _, _, ls in cast2], timeout=300)
        except (DriverDied, DriverTimeout) as ex:
            acc.inconc("driver: %r" % (ex,))
            d.restart()
            creps = []
        for (tk, v, ls), rep in zip(cast2, creps):
            # canonical layout first: its value is judged exactly, its unit is what every other layout must reproduce
            its = rep.get("items") or []
            parts = its[0]["ok"]["u"] if len(its) == 1 and "ok" in its[0] else []
            acc.evaluations += 1
            acc.count("family_cast2")
            if judge(acc, ls[0], (v, parts), rep, "cast2:single", {"build": p["kind"]}):
                for text, mode in zip(ls[1:], ("tight", "tight", "random", "random", "unicode")):
                    if text != ls[0]:
                        reqs.append({"op": "query", "q": text})
                        meta.append(("cast2:" + mode, text, (v, parts), 2))
        for _ in range(p["n_fn"]):
            # parenthesised / nested expressions as function arguments
            e = exact.gen_tree(rng, rng.randint(1, 3), max_digits=3, max_exp=0, ops="+-*/")
            try:
                v = exact.ev(e)
            except Exception:
                continue
            n = rng.randint(-3, 3)
            form = rng.randint(0, 3)
            if form == 0:
                t, want = ("call", "round", [e, exact.int_lit(n)]), exact.round_digits(v, n)
            elif form == 1:
                t, want = ("call", "floor", [("paren", e)]), exact.floor_(v)
            elif form == 2:
                t, want = ("bin", "*", ("call", "ceil", [e]), exact.int_lit(3)), exact.ceil_(v) * 3
            else:
                t, want = ("bin", "-", exact.int_lit(7), ("call", "round", [("paren", ("paren", e))])), 7 - exact.round_half_away(v)
            for style in ("full", "min"):
                tk = tokens(t, style)
                for mode in ("single", "tight", "random", "random", "unicode"):
                    text = layout(tk, rng, mode)
                    reqs.append({"op": "query", "q": text})
                    meta.append(("fn:" + style + ":" + mode, text, want, 2))
        for _ in range(p.get("n_deep", 0)):
            # deep one-sided nesting (continued fractions, Horner schemes, nested calls): 5-40 parenthesised levels, each inside a
            # looser and a tighter operator - fixed-size parser stacks and depth counters only show here (seed C06-d)
            depth = rng.choice([5, 8, 9, 12, 16, 17, 18, 24, 33, 40])
            style_ = rng.randint(0, 3)
            t = exact.int_lit(rng.randint(1, 9))
            for lvl in range(depth):
                a, b = exact.int_lit(rng.randint(1, 9)), exact.int_lit(rng.randint(1, 3))
                if style_ == 0:      # a + b / (t)
                    t = ("bin", rng.choice("+-"), a, ("bin", "/", b, t))
                elif style_ == 1:    # a + b * (t)
                    t = ("bin", rng.choice("+-"), a, ("bin", "*", b, t))
                elif style_ == 2:    # (t) * b + a   (left-nested)
                    t = ("bin", rng.choice("+-"), ("bin", "*", t, b), a)
                else:                # a + round(t) / b
                    t = ("bin", "+", a, ("bin", "/", ("call", "round", [t]), b))
            try:
                v = ev_calls(t)
            except Exception:
                continue
            for style in ("full", "min"):
                tk = tokens(t, style)
                for mode in ("single", "tight", "random"):
                    text = layout(tk, rng, mode)
                    reqs.append({"op": "query", "q": text})
                    meta.append(("deep:" + style + ":" + mode, text, v, depth))
        for _ in range(p.get("n_deep", 0)):
            if rng.random() < 0.5:
                e = exact.gen_chain(rng, rng.choice([17, 33, 65, 129, 257]))        # long flat chains (number of operands, not depth)
            else:
                e = exact.gen_chain(rng, rng.choice([65, 129, 257, 300, 520]), calls=rng.choice([0.5, 1.0]))     # ... of built-in calls
            try:
                v = ev_calls(e)
            except Exception:
                continue
            for mode in ("single", "tight", "random"):
                text = layout(tokens(e, "min"), rng, mode)
                reqs.append({"op": "query", "q": text})
                meta.append(("chain:min:" + mode, text, v, 20))
        for _ in range(p["n_rand"]):
            e = exact.gen_tree(rng, rng.randint(2, p["depth"]), max_digits=6, max_exp=6)
            try:
                v = exact.ev(e)
            except Exception:
                continue
            nops = len(exact.ops_of(e))
            for style in ("full", "min"):
                tk = tokens(e, style)
                for mode in ("tight", "random", "random", "unicode"):
                    text = layout(tk, rng, mode)
                    reqs.append({"op": "query", "q": text})
                    meta.append(("random:" + style + ":" + mode, text, v, nops))
        for _ in range(p.get("n_tower", 40)):
            # towers of powers whose middle results are NOT what a folded exponent product would give: a non-integer exponent (an
            # error by the documented rules, whatever follows), a zero base under a negative exponent. Left-grouped with explicit
            # parentheses, spaced and tight: every spelling must report the same (seed C06-i: a ^ b ^ c folded into a ^ (b * c) only
            # when no blank precedes the second operator)
            a_, b_, c_ = rng.choice([("4", "0.5", "2"), ("2", "1.5", "2"), ("9", "2", "0.5"), ("0", "-1", "-1"), ("0", "-1", "0"), ("0", "-2", "2"),
                                     ("16", "0.25", "4"), ("8", "-0.5", "-2"), ("0", "-1", "1"), ("1", "0.5", "2"), ("27", "-1.5", "2")])
            variants = ["(%s ^ %s) ^ %s" % (a_, b_, c_), "%s ^ %s ^ %s" % (a_, b_, c_), "%s^%s^%s" % (a_, b_, c_), "%s ^ %s^ %s" % (a_, b_, c_),
                        "%s^%s ^ %s" % (a_, b_, c_), "%s**%s**%s" % (a_, b_, c_), "%s ** %s**%s" % (a_, b_, c_)]
            for vtext in variants:
                reqs.append({"op": "query", "q": vtext})
                meta.append(("tower-error", vtext, "error", 2))
        for _ in range(p.get("n_huge", 3)):
            # ONE gap (or the front / the end) filled with 2^16 -1/+0/+1 ... blanks: "the number of blanks does not matter" also past
            # whatever width a token length is stored in (seed C06-h)
            e = exact.gen_tree(rng, 2, max_digits=3, max_exp=0, ops="+-*/")
            try:
                v = exact.ev(e)
            except Exception:
                continue
            text = layout(tokens(e, "min"), rng, "single")
            L = rng.choice([65535, 65536, 65537, 65536, 70000, 131072])
            gaps = [i for i, ch in enumerate(text) if ch == " "]
            where = rng.choice(["gap", "gap", "lead", "trail"]) if gaps else "lead"
            fill = rng.choice([" ", " ", "\t"]) * L
            if where == "gap":
                g = rng.choice(gaps)
                text = text[:g] + fill + text[g + 1:]
            elif where == "lead":
                text = fill + text
            else:
                text = text + fill
            reqs.append({"op": "query", "q": text})
            meta.append(("hugeblank:" + where, text, v, 2))
        for i in range(0, len(reqs), 4000):
            try:
                reps = d.call_many(reqs[i:i + 4000], timeout=300)
            except (DriverDied, DriverTimeout) as ex:
                acc.inconc("driver: %r" % (ex,))
                d.restart()
                continue
            for (tag, text, want, nops), rep in zip(meta[i:i + 4000], reps):
                acc.evaluations += 1
                acc.count("family_" + tag.split(":")[0])
                if nops >= 2:
                    acc.nontriv(text)
                if judge(acc, text, want, rep, tag, {"build": p["kind"]}) and tag.endswith("min:random"):
                    acc.sample({"query": text, "value": str(want)}, cap=1)
    finally:
        d.close()
    return acc

def run(tier, seed):
    t0 = time.time()
    bins = {k: build.build(k)["vdriver"] for k in ("dbg", "rel")}
    rng = rng_for(seed, PID, "plan")
    TOOL_BLANKS[:] = discover_blanks(bins["dbg"])          # shards are forked after this point
    seqs = ["".join(s) for n in range(1, 6) for s in itertools.product(OPS, repeat=n)]
    if tier == "quick":
        # all sequences up to length 4 with all bracketings; length 5: every sequence with 6 of its 42 bracketings
        plan = [("dbg", seqs, 0, 1)]
        misc = {"n_to": 150, "n_fn": 150, "n_rand": 400, "depth": 5, "n_deep": 12}
    else:
        plan = [("dbg", seqs, 0, 3), ("rel", seqs, 0, 2)]
        misc = {"n_to": 4000, "n_fn": 4000, "n_rand": 12000, "depth": 7, "n_deep": 400}
    acc = Acc()
    for kind, work, sample_shapes, layouts in plan:
        work = list(work)
        rng.shuffle(work)
        chunks = [work[i::NCPU * 4] for i in range(NCPU * 4)]
        payloads = [{"seed": seed, "shard": "%s%d-%d" % (kind, sample_shapes, i), "work": c, "bin": bins[kind], "kind": kind,
                     "sample_shapes": sample_shapes, "layouts": layouts} for i, c in enumerate(chunks) if c]
        acc.merge(run_shards(shard_shapes, payloads))
    for kind in ("dbg", "rel"):
        payloads = [dict(misc, seed=seed, shard="%s-%d" % (kind, i), bin=bins[kind], kind=kind) for i in range(NCPU)]
        acc.merge(run_shards(shard_misc, payloads))
    complete = True
    return finish(PID, tier, seed, "exploration", acc, RULE, t0,
                  assumptions=["binary + and - need a blank on both sides (`1 -2` is the literal -2 by the lexer's documented number syntax); "
                               "a blank between a function name and `(` is not optional", "Fraction arithmetic is exact"],
                  extra={"blank_characters_of_this_build": ["U+%04X" % ord(c) for c in TOOL_BLANKS], "operator_sequences": len(seqs), "all_bracketings_covered": "length<=5 (3905 sequences x 1/2/5/14/42 bracketings; shapes whose exact value is undefined or beyond the size bound are counted as skipped)"},
                  exhaustive=complete, min_eval=1000)

def replay(path):
    v = json.load(open(path))
    c = v["case"]
    from core.driver import replay_env
    with Driver(build.build(c.get("build", "dbg"))["vdriver"], env=replay_env(c)) as d:
        print(json.dumps({"query": c["query"], "expected": c["expected"], "now": d.call({"op": "query", "q": c["query"]}).get("items")}, ensure_ascii=False))
    return 0
