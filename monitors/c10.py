"""C10 - floor / ceil / round return the mathematically defined value and carry the unit."""
import json, time
from fractions import Fraction
from core import build, exact, boundary
from core.driver import Driver, DriverDied, DriverTimeout
from core import multi
from core.run import Acc, finish, rng_for, run_shards, NCPU

PID = "C10"
UNITS = ["", "", "", " m", " km", " s", " kg", " ft", " N", " mi/h", " m^2", " J", " dl"]
RULE = ("floor(x), ceil(x), round(x), round(x,n) for x = p/q spelled as `p / q` or as a decimal: negatives, exact integers, exact "
        "halves k+1/2, k +- 10^-j and k+1/2 +- 10^-j (j<=12), large magnitudes, n in -6..6, arguments with units, arities 0..3; "
        "result compared exactly with floor/ceil/half-away-from-zero rounding on Fraction; the result's unit structure must equal "
        "that of the bare argument; wrong arity must be an error; debug and release builds. "
        "non-trivial = distinct call whose argument is not an integer, or is negative, or has a unit, or n != 0")

class BFraction(Fraction):
    """A Fraction remembered as coming from the boundary dictionary."""
    _boundary = True

def dec_text(x):
    """Exact decimal spelling of a terminating fraction, else None."""
    d = x.denominator
    k = 0
    while d % 10 == 0:
        d //= 10; k += 1
    a = b = 0
    while d % 2 == 0:
        d //= 2; a += 1
    while d % 5 == 0:
        d //= 5; b += 1
    if d != 1:
        return None
    digits = k + max(a, b)
    n = x.numerator * 10 ** digits // x.denominator
    s = str(abs(n)).rjust(digits + 1, "0")
    t = (s[:-digits] + "." + s[-digits:]) if digits else s
    return ("-" if x < 0 else "") + t

def gen_x(rng):
    k = rng.choice([0, 1, -1, 2, -2, 7, -7, rng.randint(-50, 50), rng.randint(-10 ** 6, 10 ** 6), rng.randint(-10 ** 30, 10 ** 30)])
    r = rng.random()
    if rng.random() < 0.03:
        # a denominator that reaches the top of a machine word once round(x, -j) has scaled it by 10^j; the matching digits argument
        # is remembered with the value
        n, d, j = boundary.scaled_denominator(rng)
        x = BFraction(n, d)
        x._n_hint = -j
        return x
    if rng.random() < 0.04:
        # machine-word boundaries in the reduced numerator (-2^63 over an odd denominator, 2^64 + 1 over 10 ...): fixed-width
        # fast paths in floor/ceil/round (seed C10-c); plus the same with a half added
        n, d = boundary.fraction_parts(rng)
        return BFraction(Fraction(n, d) + rng.choice([0, 0, 0, Fraction(1, 2), Fraction(-1, 2)]))
    if rng.random() < 0.06:
        # terminating denominators 2^a * 5^b with arbitrary numerators (bytes to MiB, 1/1048576 ...): decimal shortcuts in the
        # rounding path (tables of powers of five, seed C10-f); spelled `p / q`
        a, b = rng.choice([(rng.randint(1, 70), 0), (rng.randint(1, 40), rng.randint(0, 30)), (0, rng.randint(1, 30))])
        return BFraction(Fraction(rng.choice([1, -1]) * rng.randint(1, 10 ** rng.randint(1, 12)), 2 ** a * 5 ** b))
    if r < 0.15:
        return Fraction(k)
    if r < 0.35:
        return Fraction(k) + Fraction(1, 2)
    if r < 0.5:
        j = rng.randint(1, 12)
        return Fraction(k) + rng.choice([1, -1]) * Fraction(1, 10 ** j)
    if r < 0.7:
        j = rng.randint(1, 12)
        return Fraction(k) + Fraction(1, 2) + rng.choice([1, -1]) * Fraction(1, 10 ** j)
    if r < 0.85:
        # halves at digit positions for round(x, n)
        n = rng.randint(-6, 6)
        return (Fraction(k) + Fraction(1, 2) + rng.choice([0, 0, 1, -1]) * Fraction(1, 10 ** 9)) / Fraction(10) ** n
    return Fraction(rng.randint(-10 ** 9, 10 ** 9), rng.randint(1, 10 ** rng.randint(1, 9)))

def spell(rng, x):
    t = dec_text(x)
    if t is not None and rng.random() < 0.6:
        return t
    return "%d / %d" % (x.numerator, x.denominator)

def lit_tree(rng, x):
    t = dec_text(x)
    if t is not None and len(t) < 60:
        return ("lit", t, Fraction(x))
    return ("bin", "/", exact.int_lit(x.numerator), exact.int_lit(x.denominator))

def small_int_call(rng):
    """A call (or arithmetic around a call) whose value is an integer in -6..6: the digits argument of round(x, n)."""
    n = rng.randint(-6, 6)
    fn = rng.choice(["floor", "ceil", "round"])
    if fn == "floor":
        y = Fraction(n) + Fraction(rng.randint(0, 99), 100)
    elif fn == "ceil":
        y = Fraction(n) - Fraction(rng.randint(0, 99), 100)
    else:
        y = Fraction(n) + Fraction(rng.randint(-49, 49), 100)
        if y != 0 and (y > 0) != (n > 0) and n != 0:
            y = Fraction(n)
    t = ("call", fn, [lit_tree(rng, y)])
    r = rng.random()
    if r < 0.25:
        k = rng.randint(-3, 3)
        t = ("bin", "+", exact.int_lit(k), ("call", fn, [lit_tree(rng, y - k)])) if fn != "round" else ("bin", "+", t, exact.int_lit(0))
    elif r < 0.35:
        t = ("call", "round", [t, ("call", "floor", [lit_tree(rng, Fraction(rng.randint(0, 3)) + Fraction(1, 2))])])
    return t

def gen_composed(rng):
    """Calls inside the arguments of calls, in the FIRST and in the LATER argument positions, with arithmetic around them:
    round(x, floor(y)), round(floor(x) + y, 1 + ceil(z)), floor(round(x, 2) * 3) (seed C10-g: an argument stack shared by all calls
    of a query is only wrong when a call is evaluated while an enclosing call has already collected an earlier argument)."""
    def value(depth):
        x = gen_x(rng)
        if abs(x) > 10 ** 12:
            x = Fraction(x.numerator % 10 ** 9, x.denominator) if x.denominator < 10 ** 12 else Fraction(7, 2)
        t = lit_tree(rng, x)
        if depth > 0 and rng.random() < 0.6:
            fn = rng.choice(["floor", "ceil", "round", "round2"])
            inner = value(depth - 1)
            if fn == "round2":
                n = small_int_call(rng) if rng.random() < 0.6 else exact.int_lit(rng.randint(-6, 6))
                t = ("call", "round", [inner, n])
            else:
                t = ("call", fn, [inner])
            if rng.random() < 0.4:
                t = ("bin", rng.choice("+-*"), t, lit_tree(rng, Fraction(rng.randint(-999, 999), rng.choice([1, 2, 4, 8, 10, 100]))))
        return t
    outer = rng.choice(["floor", "ceil", "round", "round2", "round2", "round2"])
    if outer == "round2":
        return ("call", "round", [value(rng.randint(0, 2)), small_int_call(rng)])
    return ("call", outer, [value(rng.randint(1, 2))])

def shard(p):
    acc = Acc()
    if p["shard"] % 4 == 3:
        acc.context = {"trace_logging": True}
    rng = rng_for(p["seed"], PID, p["shard"])
    cases = []
    pending = []
    for _ in range(p["n"]):
        if rng.random() < 0.04:
            # whole numbers of 10-45 digits rounded to tens ... to 10^40: the remainder modulo 10^|n| runs through every machine-word
            # width (a u64 remainder doubled for the comparison with 10^19 loses its top bit, seed C10-h)
            nd = rng.randint(10, 45)
            x = Fraction(rng.choice([1, -1]) * rng.randint(10 ** (nd - 1), 10 ** nd - 1))
            if rng.random() < 0.3:
                # ... with the part that is cut off just below / at / above one half
                j = rng.randint(1, min(nd - 1, 40))
                half = 5 * 10 ** (j - 1)
                x = Fraction((abs(x.numerator) // 10 ** j) * 10 ** j + half + rng.choice([-1, 0, 0, 1, rng.randint(0, half - 1)])) * (1 if x > 0 else -1)
                n = -j
            else:
                n = -rng.randint(1, min(nd + 1, 40))
            unit = rng.choice(UNITS)
            xs_u = str(x.numerator) + unit
            cases.append(("round(%s,%d)" % (xs_u, n), xs_u, exact.round_digits(x, n), (x, unit, n)))
            continue
        if rng.random() < 0.06:
            t = gen_composed(rng)
            try:
                want = exact.ev(t)
            except Exception:
                continue
            cases.append((exact.render(t, "min"), None, want, "composed"))
            continue
        if pending:
            x, forced = pending.pop()
        else:
            x, forced = gen_x(rng), None
            if getattr(x, "_boundary", False) or rng.random() < 0.02:
                pending = [(x, f) for f in ("floor", "ceil", "round", "round2")]      # boundary-ish values go through all functions
        unit = rng.choice(UNITS)
        xs = spell(rng, x)
        if unit and "/" in xs:
            xs_u = "(" + xs + ")" + " * 1" + unit          # a quotient with a unit: (p / q) * 1 m
        else:
            xs_u = xs + unit
        fn = forced or rng.choice(["floor", "ceil", "round", "round2", "round2", "arity"])
        if fn == "arity":
            name = rng.choice(["floor", "ceil", "round"])
            nargs = rng.choice([0, 2, 3] if name != "round" else [0, 3])
            q = "%s(%s)" % (name, ",".join([xs_u] * nargs))
            cases.append((q, None, "error", None))
        elif fn == "round2":
            n = rng.randint(-6, 6)
            if getattr(x, "_n_hint", None) is not None and rng.random() < 0.7:
                n = x._n_hint
            if rng.random() < 0.08:
                n = rng.randint(-40, 40)          # beyond the everyday range: the definition is the same for every n
            q = "round(%s,%d)" % (xs_u, n)
            cases.append((q, xs_u, exact.round_digits(x, n), (x, unit, n)))
        else:
            q = "%s(%s)" % (fn, xs_u)
            cases.append((q, xs_u, exact.call(fn, [x]), (x, unit, 0)))
    for kind in p["builds"]:
        d = Driver(p["bins"][kind], env={"RUST_LOG": "anything=trace"} if p["shard"] % 4 == 3 else None)      # every fourth shard: trace logging enabled
        try:
            reqs = []
            for q, arg, _, _ in cases:
                reqs.append({"op": "query", "q": q})
                reqs.append({"op": "query", "q": arg if arg is not None else "1"})
            try:
                reps = d.call_many(reqs, timeout=120)
            except (DriverDied, DriverTimeout) as ex:
                acc.inconc("driver %s: %r" % (kind, ex))
                continue
            for i, (q, arg, want, meta) in enumerate(cases):
                rep, rarg = reps[2 * i], reps[2 * i + 1]
                acc.evaluations += 1
                case = {"query": q, "build": kind, "expected": str(want)}
                fname = q.split("(")[0]
                if "panic" in rep:
                    acc.violate("c10:panic:%s:%s" % (fname, rep.get("panic_loc")), "%s panicked: %s (%s)" % (q, rep["panic"], kind), dict(case, observed=rep["panic"]))
                    continue
                items = rep.get("items", [])
                case["observed"] = items
                if want == "error":
                    acc.count("arity_cases")
                    acc.nontriv(q)
                    if len(items) != 1 or "err" not in items[0]:
                        acc.violate("c10:arity-accepted:" + fname, "%s has a wrong number of arguments but gave %s" % (q, items), case)
                    continue
                if meta == "composed":
                    acc.count("composed_calls(call inside an argument of a call)")
                    if q.count("(") >= 3 and "," in q:
                        acc.count("composed_with_a_call_in_the_digits_argument")
                    acc.nontriv(q)
                    if len(items) != 1 or "ok" not in items[0]:
                        acc.violate("c10:no-value:composed", "%s should be %s but gave %s (%s)" % (q, want, items, kind), case)
                    else:
                        got = Fraction(int(items[0]["ok"]["v"][0]), int(items[0]["ok"]["v"][1]))
                        if got != want:
                            acc.violate("c10:wrong-value:composed", "%s gave %s, the defined value is %s (%s)" % (q, got, want, kind), case)
                    continue
                x, unit, n = meta
                if x.denominator != 1 or x < 0 or unit or n:
                    acc.nontriv(q)
                acc.count(fname + ("_digits" if "," in q else ""))
                if x < 0:
                    acc.count("negative_x")
                if (x * 2).denominator == 1 and x.denominator == 2:
                    acc.count("exact_half_x")
                if len(items) != 1 or "ok" not in items[0]:
                    acc.violate("c10:no-value:" + fname, "%s should be %s but gave %s" % (q, want, items), case)
                    continue
                got = Fraction(int(items[0]["ok"]["v"][0]), int(items[0]["ok"]["v"][1]))
                if got != want:
                    tag = fname + (":digits" if "," in q else "") + (":neg" if x < 0 else ":pos")
                    acc.violate("c10:wrong-value:" + tag, "%s gave %s, the defined value is %s (%s)" % (q, got, want, kind), case)
                    continue
                aitems = rarg.get("items", [])
                if len(aitems) == 1 and "ok" in aitems[0]:
                    if aitems[0]["ok"]["u"] != items[0]["ok"]["u"]:
                        acc.violate("c10:unit-changed:" + fname, "%s has unit %s but its argument has %s" % (q, items[0]["ok"]["u"], aitems[0]["ok"]["u"]), case)
                else:
                    acc.inconc("argument %r alone did not evaluate: %s" % (arg, aitems))
                if kind == p["builds"][0]:
                    acc.sample({"query": q, "expected": str(want), "observed": items[0]["ok"]}, cap=1)
            qs = [q for q, _, w, _ in cases if w != "error"]
            multi.stage(acc, d, rng.sample(qs, min(len(qs), 300)), rng, 300, PID, kind)
            # ... and queries of two or three calls each, evaluated in turn with one another (iterators alive at the same time)
            sm = rng.sample(qs, min(len(qs), 240))
            iq = ["%s %s" % (sm[i], sm[i + 1]) for i in range(0, len(sm) - 1, 2)]
            iq += ["round(%s,%d) round(%s,%d)" % (rng.choice(["1.23456", "2.34567", "-7777 m", "1250 m", "44444"]), n_, rng.choice(["3.14159", "9.87654", "-0.5 s"]), n_) for n_ in range(-4, 5)]
            multi.interleave_stage(acc, d, iq, rng, 120, PID, kind)
        finally:
            d.close()
    return acc

def run(tier, seed):
    t0 = time.time()
    bins = {k: build.build(k)["vdriver"] for k in ("dbg", "rel")}
    n = 100000 if tier == "quick" else 1200000
    payloads = [{"seed": seed, "shard": i, "n": n // NCPU, "builds": ["dbg", "rel"], "bins": bins} for i in range(NCPU)]
    acc = run_shards(shard, payloads)
    return finish(PID, tier, seed, "exploration", acc, RULE, t0,
                  assumptions=["math.floor/ceil on Fraction are exact", "round = half away from zero, as the property states"], min_eval=1000)

def replay(path):
    v = json.load(open(path))
    c = v["case"]
    from core.driver import replay_env
    with Driver(build.build(c.get("build", "dbg"))["vdriver"], env=replay_env(c)) as d:
        print(json.dumps({"query": c["query"], "expected": c["expected"], "now": d.call({"op": "query", "q": c["query"]})}, ensure_ascii=False))
    return 0
