"""C18 - describing a query does not change its answer and reports exactly the facts used (trace conformance)."""
import json, time
from fractions import Fraction as F
from core import build, unitgen as G, units_ref as R, facts as FX, exact
from core.driver import Driver, DriverDied, DriverTimeout
from core import multi
from core.run import Acc, finish, rng_for, run_shards, NCPU
from c02 import mag

PID = "C18"
RULE = ("history on ONE database instance: a random permutation of queries mixing literals, functions and 1-4 fact phrases, each evaluated "
        "2-5 times at random positions, alternately with and without descriptions. Trace specification over the lookup events E recorded "
        "by the cfg(anything_verif) hook at the Db boundary: with descriptions on, descriptions == [(e.phrase, e.constant) for e in E if "
        "e.hit]; off: no descriptions; the value list is identical in both modes and at every occurrence; substituting each phrase by the "
        "(value, unit) of its reported constant and evaluating the expression tree in the reference model (Fraction + SI normaliser) "
        "reproduces the tool's result. non-trivial = distinct query with >=1 fact phrase and >=1 operator")

DISTURBERS = ["OR", "NOT", "AND", "earth NOT", "NOT earth", "OR earth", "earth OR", "earth AND", "AND earth", "sun OR moon mass", "mass NOT NOT",
              "zzqqxx", "qqq jjj", "population zzzz", "mass of", "of", "x", "earth OR OR moon", "NOT", "(OR)", "(earth NOT) * 2", "1 / 0", "1 m + 1 s", ")", "{a b}"]
TARGETS = ["m/s^2", "km/s^2", "N/kg", "m/s/s", "ft/s^2", "m/s", "km/h", "N", "J", "W", "kg", "g", "m", "km", "s", "yr", "K", "m^2", "m^3", "l", "Pa", "Hz",
           "kg/m^3", "J/kg", "W/m^2", "m^3/kg*s^2", "N*m^2/kg^2", "C", "V", "mol", "1/s", "kg*m/s^2"]

def gen_query(rng, V, plain_facts, unit_facts, short=()):
    """Returns (text, tree) where tree leaves are ('num', F) | ('fact', phrase) | ('q', si, dims)."""
    nf = rng.choice([1, 2, 2, 3, 3, 4, 4, 4, 9, 17, 33])      # mostly 1-4 fact phrases, now and then dozens
    used = []
    def leaf():
        r = rng.random()
        if r < 0.55:
            if used and rng.random() < 0.3:
                ph = rng.choice(used)              # the same phrase again in one query
            else:
                ph = rng.choice(plain_facts if rng.random() < 0.6 or not unit_facts else unit_facts)
            used.append(ph)
            return ph, ("fact", ph)
        if r < 0.8:
            xs, x = mag(rng)
            return xs, ("num", x)
        fs = V.rand_factors(rng, nmax=2)
        xs, x = mag(rng)
        s, dims = V.factors_si(fs)
        return "%s %s" % (xs, G.text(fs, rng)), ("q", x * s, dims)
    text, tree = leaf()
    if tree[0] != "fact":
        ph = rng.choice(plain_facts)
        text, tree = ph, ("fact", ph)
    for _ in range(nf - 1 + rng.randint(0, 2)):
        op = rng.choice("**/")
        t2, tr2 = leaf()
        # (no blank around the operator when the operand in front of it is a fact phrase or a parenthesis and a number or a phrase
        # follows: `speed of light*2`, `population finland/population world` - seed C06-j: a stale blank count swallows the operator
        # into the phrase)
        glue = " %s " % op
        if rng.random() < 0.2 and tr2[0] in ("fact", "num") and not t2.startswith("-"):
            glue = op
        if rng.random() < 0.5:
            if glue == op and tree[0] not in ("fact",) and not text.endswith(")"):
                glue = " %s " % op
            text, tree = "%s%s%s" % (text, glue, t2), ("bin", op, tree, tr2)
        else:
            if glue == op and tr2[0] != "fact":
                glue = " %s " % op
            text, tree = "%s%s(%s)" % (t2, glue, text), ("bin", op, tr2, tree)
    if short and rng.random() < 0.25:
        # a one- or two-letter phrase (g, c, e, au ...), parenthesised so that it is a value and not a unit
        w = rng.choice(short)
        op = rng.choice("**/")
        if rng.random() < 0.5:
            text, tree = "(%s) %s (%s)" % (w, op, text), ("bin", op, ("fact", w), tree)
        else:
            text, tree = "(%s) %s (%s)" % (text, op, w), ("bin", op, tree, ("fact", w))
        if rng.random() < 0.3:
            text, tree = "(%s)" % w, ("fact", w)
    if rng.random() < 0.3:
        # a cast: to a spelling of one of the usual dimensions (commensurable or not - the trace specification, mode equality and
        # history equality hold for failing queries too; a cast must not make the evaluator look anything up on its own: seed C18-c)
        tgt = rng.choice(TARGETS) if rng.random() < 0.8 else G.text(V.rand_factors(rng, nmax=2), rng)
        return "(%s) to %s" % (text, tgt), ("to", tree, tgt)
    r = rng.random()
    if r < 0.2:
        # plain-number sum of two population-like facts, rounded
        a, b = rng.choice(plain_facts), rng.choice(plain_facts)
        text, tree = "round(%s + %s)" % (a, b), ("round", ("bin", "+", ("fact", a), ("fact", b)))
    elif r < 0.3:
        a, b = rng.choice(plain_facts), rng.choice(plain_facts)
        k = rng.randint(1, 9)
        text, tree = "%s - %d * %s" % (a, k, b), ("bin", "-", ("fact", a), ("bin", "*", ("num", F(k)), ("fact", b)))
    return text, tree

def phrase_leaves(tree):
    k = tree[0]
    if k == "fact":
        return [tree[1]]
    if k in ("num", "q"):
        return []
    if k in ("round", "to"):
        return phrase_leaves(tree[1])
    return phrase_leaves(tree[2]) + phrase_leaves(tree[3])

def model(tree, consts, V):
    """consts: phrase -> list of (value, parts) in the order they were reported; consumed per occurrence."""
    k = tree[0]
    if k == "num":
        return tree[1], R.ZERO_DIMS
    if k == "q":
        return tree[1], tree[2]
    if k == "fact":
        lst = consts.get(tree[1])
        if not lst:
            raise KeyError(tree[1])
        v, parts = lst[0]
        return V.normalise(v, parts)
    if k == "round":
        v, d = model(tree[1], consts, V)
        return exact.round_half_away(v), d
    if k == "to":
        v, d = model(tree[1], consts, V)       # a cast changes neither the SI value nor the dimension (the tool refuses it otherwise)
        if d == R.ZERO_DIMS:
            raise ValueError("a plain number adopts the unit it is cast to (C02): not judged here")
        return v, d
    op = tree[1]
    a, da = model(tree[2], consts, V)
    b, db = model(tree[3], consts, V)
    if op == "*":
        return a * b, R.add_dims(da, db)
    if op == "/":
        if b == 0:
            raise ZeroDivisionError()
        return a / b, R.add_dims(da, db, -1)
    if da != db:
        raise ValueError("dims")
    return (a + b if op == "+" else a - b), da

def shard(p):
    acc = Acc()
    rng = rng_for(p["seed"], PID, p["shard"])
    # every fourth shard evaluates with a logger installed at trace level (RUST_LOG): enabling logging must not change any result.
    # (The vocabulary - which words mean what, measured scales - comes from a plain driver: a fault that logging switches on must not
    # also shift the yardstick.)
    log_env = {"RUST_LOG": "anything=trace"} if p["shard"] % 4 == 3 else None
    d = Driver(p["bin"], env=log_env)
    try:
        if log_env:
            acc.context = {"trace_logging": True}
            acc.count("shards_with_trace_logging_enabled")
            with Driver(p["bin"]) as d_plain:
                V = G.Vocab(d_plain)
        else:
            V = G.Vocab(d)
        # classify facts by evaluating them once (with descriptions)
        phrases = [" ".join(f["tokens"]) for f in p["facts"]]
        reps = d.call_many([{"op": "query", "q": ph, "describe": True} for ph in phrases], timeout=600)
        plain, unitf = [], []
        for ph, rep in zip(phrases, reps):
            items = rep.get("items") or []
            if len(items) == 1 and "ok" in items[0]:
                try:
                    V.norm_item(items[0])
                except Exception:
                    continue
                (plain if not items[0]["ok"]["u"] else unitf).append(ph)
        if len(plain) < 5:
            acc.inconc("too few plain-number facts (%d)" % len(plain))
            return acc
        # one- and two-letter words that the database answers (g, c, e, au, ly ...)
        import string
        cands = list(string.ascii_letters) + [a + b for a in string.ascii_lowercase for b in string.ascii_lowercase if a + b != "to"]
        creps = d.call_many([{"op": "query", "q": "(%s)" % w, "describe": True} for w in cands], timeout=600)
        short = []
        for w, rep in zip(cands, creps):
            items = rep.get("items") or []
            if len(items) == 1 and "ok" in items[0] and len(rep.get("descs") or []) == 1:
                try:
                    V.norm_item(items[0])
                except Exception:
                    continue
                short.append(w)
        acc.seen("short_phrases_answered", tuple(short))
        queries = []
        for _ in range(p["n"]):
            queries.append(gen_query(rng, V, plain, unitf, short))
        for g in ["zzqqxx", "qqq jjj", "population zzzz"]:
            queries.append((g, None))
        # near misses: a fact word with a possessive or plural ending, a doubled or dropped last letter, a stray apostrophe or hyphen -
        # alone, in a phrase and inside arithmetic. Whatever the tool does with them (find a constant through the matching prefix,
        # or report the phrase as unknown), a constant that entered the computation must be reported (seed C18-g: a second, more
        # tolerant lookup behind the first one that forgets to describe what it found)
        words = sorted({w for ph in plain + unitf for w in ph.split(" ") if 3 <= len(w) <= 9 and w.isalpha()})
        def near(w):
            return rng.choice([w + "'s", w + "'s", w + "s", w + "'", w[:-1], w + w[-1], w + "es", w.capitalize() + "'s", w + "s'", w + "'S"])
        for _ in range(p["n"] // 4):
            w = rng.choice(words)
            m = near(w)
            ph = rng.choice(plain + unitf).split(" ")
            form = rng.randint(0, 5)
            if form == 0:
                queries.append((m, ("fact", m)))
            elif form == 1:
                queries.append(("%s / 2" % m, ("bin", "/", ("fact", m), ("num", F(2)))))
            elif form == 2:
                other = rng.choice(plain)
                queries.append(("%s / (%s)" % (other, m), ("bin", "/", ("fact", other), ("fact", m))))
            elif form == 3:
                ph2 = " ".join(y for y in (near(x) if i == len(ph) - 1 else x for i, x in enumerate(ph)) if y)
                queries.append((ph2, ("fact", ph2)))
            elif form == 4:
                ph2 = " ".join(y for y in (near(x) if i == 0 else x for i, x in enumerate(ph)) if y)
                queries.append(("(%s) * 3" % ph2, ("bin", "*", ("fact", ph2), ("num", F(3)))))
            else:
                queries.append(("(%s) * (%s)" % (m, near(rng.choice(words))), None))
        acc.count("near_miss_phrase_queries", p["n"] // 4)
        # long phrases (60 to 140 bytes) with a multi-byte character - the degree sign inside a word, a non-ASCII blank between words -
        # starting at every byte offset from 60 to 100: a log line, a key or a preview that cuts the phrase at a fixed number of BYTES
        # (seed C18-j: the description is dropped when byte 80 falls inside a character). Judged by the trace specification only.
        import c06 as _c06
        mb_blanks = [b_ for b_ in _c06.TOOL_BLANKS if len(b_.encode("utf-8")) > 1] or []
        for k_ in range(60, 101):
            if (k_ + p["shard"]) % 4:
                continue
            ph = rng.choice(plain + unitf)
            pad = ph + " "
            while len(pad) < k_:
                pad += rng.choice(["qq ", "qqq ", "q "])
            pad = pad[:k_] if pad[k_ - 1] != " " else pad[:k_ - 1] + "q"
            queries.append((pad + "°qq in kilograms please", None))
            if mb_blanks:
                queries.append((pad.rstrip() + "q"[: max(0, k_ - len(pad.rstrip()))] + rng.choice(mb_blanks) + "qq please", None))
            queries.append(("2 * (" + pad + "°q) / " + rng.choice(plain), None))
        # several failing parts in ONE call or operation (round(zzzz, qqqq), (1 / 0) + (zzqq)): which error is reported, and
        # where, must not depend on whether descriptions are on (seed C18-e)
        fails = ["zzzz", "qqqq", "1 / 0", "1 m + 1 s", "earth NOT", "0 ^ -1", "nosuchfn(1)", "floor()", "2 ^ 1.5", "1 xyzunit"]
        for _ in range(40):
            a, b, c = (rng.choice(fails + plain[:20]) for _ in range(3))
            e1, e2 = rng.choice(fails + ["2", "-1"]), rng.choice(fails + ["2", "0"])     # digit arguments: failing parts or small literals only (round(x, 1e9) just runs long)
            form = rng.choice(["round(%s, %s)" % (a, e1), "round(%s, %s, %s)" % (a, e1, e2), "(%s) + (%s)" % (a, b), "(%s) * (%s) / (%s)" % (a, b, c),
                               "floor(%s) - ceil(%s)" % (a, b), "round((%s) * (%s), (%s))" % (a, b, e2)])
            queries.append((form, None))
        # cast matrix: every short phrase (and a slice of the fact phrases) x every usual cast target, this shard's share of it
        matrix = [(w, t) for w in short + phrases[:: max(1, len(phrases) // 60)] for t in TARGETS]
        n_generated = len(queries)
        for w, t in matrix[p["shard"] % NCPU::NCPU]:
            queries.append(("(%s) to %s" % (w, t), ("to", ("fact", w), t)))
        acc.count("cast_matrix_queries", len(queries) - n_generated)
        schedule = []
        for qi in range(len(queries)):
            k = rng.randint(2, 5) if qi < n_generated else 2
            flag = rng.random() < 0.5
            for j in range(k):
                schedule.append((qi, flag))
                flag = not flag
        rng.shuffle(schedule)
        # ... and once more with near-duplicate queries next to each other (sorted by text, ascending then descending): whatever
        # the evaluator or the database remembers from one evaluation to the next is asked the most confusable question next
        by_text = sorted(range(len(queries)), key=lambda i: (queries[i][0].lower(), queries[i][0]))
        schedule += [(qi, j % 2 == 0) for j, qi in enumerate(by_text)] + [(qi, j % 2 == 1) for j, qi in enumerate(reversed(by_text))]
        # the same phrases in other letter cases, in particular the words and/or/not in both cases (the search library gives the
        # upper-case forms a meaning of their own): near-duplicates that anything keyed on a case-folded phrase confuses (seed C18-f)
        for _ in range(30):
            a, b = rng.choice(plain + unitf), rng.choice(plain + unitf)
            wa, wb = a.split(" ")[-1], b.split(" ")[0]
            opw = rng.choice(["and", "or", "not"])
            for text in ("%s %s %s" % (wa, opw, wb), "%s %s %s" % (wa, opw.upper(), wb), "%s %s %s * 2" % (a, opw.upper(), wb), "%s %s %s * 2" % (a, opw, wb), a.upper(), a.title()):
                queries.append((text, None))
        # sandwiches A, E, A: the same query immediately before and after a *disturber* - a phrase the database does not know, or
        # one the search library refuses outright (a dangling upper-case OR / NOT), or an empty-handed cast. A lookup memo that is
        # left half-updated by a failing lookup answers the second A differently (seed C18-d)
        dist0 = len(queries)
        for e in DISTURBERS:
            queries.append((e, None))
        for di in range(dist0, len(queries)):
            for _ in range(6):
                qi = rng.randrange(n_generated) if n_generated else 0
                f1, f2, f3 = (rng.random() < 0.5 for _ in range(3))
                schedule += [(qi, f1), (di, f2), (qi, f3)]
        reqs = [{"op": "query", "q": queries[qi][0], "describe": flag} for qi, flag in schedule]
        reps = []
        for i in range(0, len(reqs), 2000):
            reps += d.call_many(reqs[i:i + 2000], timeout=600)
        # isolation: every distinct query once more on a SECOND database object, in the opposite order of the sorted pass - whatever
        # one evaluation leaves behind for the next depends on the order, the result a query has in isolation does not
        iso = {}
        with Driver(p["bin"]) as d2:
            order2 = sorted(range(len(queries)), key=lambda i: (queries[i][0].lower(), queries[i][0]), reverse=True)
            reps2 = []
            for i in range(0, len(order2), 2000):
                reps2 += d2.call_many([{"op": "query", "q": queries[qi][0], "describe": True} for qi in order2[i:i + 2000]], timeout=600)
            for qi, r2 in zip(order2, reps2):
                iso[qi] = json.dumps([("ok", it["ok"]["v"], it["ok"]["u"]) if "ok" in it else ("err", it["err"]["msg"], it["err"]["start"], it["err"]["end"]) for it in (r2.get("items") or [])])
            # ... and a few of them on a database object of their own
            fresh = rng.sample(range(len(queries)), min(10, len(queries)))
            for qi in fresh:
                d2.call({"op": "db", "mode": "in_memory"}, timeout=600)
                r2 = d2.call({"op": "query", "q": queries[qi][0], "describe": True}, timeout=600)
                s2 = json.dumps([("ok", it["ok"]["v"], it["ok"]["u"]) if "ok" in it else ("err", it["err"]["msg"], it["err"]["start"], it["err"]["end"]) for it in (r2.get("items") or [])])
                acc.count("queries_on_a_database_of_their_own")
                if s2 != iso[qi]:
                    acc.violate("c18:answer-differs-from-isolation", "%r gives %s on a database object of its own but %s on one that answered other queries before" % (queries[qi][0], s2[:300], iso[qi][:300]),
                                {"query": queries[qi][0], "describe": True, "build": p["kind"]})
        # several expressions in one query string: values and descriptions are those of the expressions evaluated alone, in order
        multi.stage(acc, d, rng.sample([q for q, t in queries[:n_generated] if "{" not in q], min(n_generated, 300)) + multi.REFUSED + ["(%s) * 2" % x for x in multi.REFUSED[:6]],
                    rng, 400, PID, p["kind"], kmax=3, descs=True)
        # two or three queries whose result iterators are alive at the same time, stepped in turn
        ipool = [q for q, t in queries[:n_generated] if "{" not in q][:200]
        ipool += ["(%s) (%s)" % (a_, b_) for a_, b_ in zip(ipool[:60], ipool[60:120])]
        multi.interleave_stage(acc, d, ipool, rng, 150, PID, p["kind"])
        first = {}
        for pos, ((qi, flag), rep) in enumerate(zip(schedule, reps)):
            text, tree = queries[qi]
            acc.evaluations += 1
            acc.count("with_descriptions" if flag else "without_descriptions")
            if tree is not None and tree[0] != "fact":
                acc.nontriv(text)
            case = {"query": text, "describe": flag, "position_in_history": pos, "build": p["kind"],
                    "preceded_by": [[queries[q_][0], f_] for q_, f_ in schedule[max(0, pos - 3):pos]]}
            if "panic" in rep:
                acc.violate("c18:panic", "%r panicked: %s" % (text, rep["panic"]), dict(case, observed=rep["panic"]))
                continue
            items = rep.get("items") or []
            descs = rep.get("descs") or []
            events = rep.get("events") or []
            acc.count("lookup_events", len(events))
            acc.count("lookup_hits", sum(1 for e in events if e["hit"] is not None))
            values = [("ok", it["ok"]["v"], it["ok"]["u"]) if "ok" in it else ("err", it["err"]["msg"], it["err"]["start"], it["err"]["end"]) for it in items]
            case["observed"] = {"values": values, "descriptions": [(x["phrase"], x["description"]) for x in descs], "events": events}
            # trace specification
            want = [(e["phrase"], e["hit"]) for e in events if e["hit"] is not None]
            got = [(x["phrase"], x["description"]) for x in descs]
            if flag:
                if got != want:
                    acc.violate("c18:descriptions-differ-from-lookups", "%r: lookups performed %s, descriptions reported %s" % (text, want, got), case)
                    continue
            elif got:
                acc.violate("c18:descriptions-when-off", "%r: descriptions reported although not asked for: %s" % (text, got), case)
                continue
            # same answer at every occurrence / in both modes
            key = qi
            sig = json.dumps(values)
            if key not in first:
                first[key] = (sig, flag, pos)
                acc.count("compared_with_a_second_database_object_asked_in_another_order")
                if iso.get(qi) is not None and iso[qi] != sig:
                    acc.violate("c18:answer-differs-from-isolation", "%r gives %s here (position %d, after %r) but %s on a second database object that was asked in another order" % (
                        text, values, pos, [queries[q_][0] for q_, _f in schedule[max(0, pos - 2):pos]], iso[qi][:300]), case)
                    continue
            elif first[key][0] != sig:
                acc.violate("c18:answer-changed:" + ("mode" if first[key][1] != flag else "history"),
                            "%r gave %s at position %d (describe=%s) but %s at position %d (describe=%s)" % (text, values, pos, flag, first[key][0], first[key][2], first[key][1]), case)
                continue
            # every fact phrase of the query that was evaluated is reported, as often as it occurs (the generator owns the tree)
            if flag and tree is not None and len(values) == 1 and values[0][0] == "ok":
                leaves = sorted(phrase_leaves(tree))
                if sorted(x["phrase"] for x in descs) != leaves:
                    acc.violate("c18:descriptions-differ-from-phrases-used", "%r uses the fact phrases %s but reports %s" % (text, leaves, [x["phrase"] for x in descs]), case)
                    continue
                if len(set(leaves)) < len(leaves):
                    acc.count("queries_with_a_repeated_phrase")
            # substitution in the reference model
            if flag and tree is not None and len(values) == 1 and values[0][0] == "ok":
                consts = {}
                for x in descs:
                    consts.setdefault(x["phrase"], []).append((G.si.frac(x["v"]), [tuple(y) for y in x["u"]]))
                try:
                    mv, md = model(tree, consts, V)
                    tv, td = V.norm_item(items[0])
                except (KeyError, ZeroDivisionError, ValueError, G.si.OffsetUnit, G.si.UnknownKey) as ex:
                    acc.count("substitution_not_applicable")
                    continue
                acc.count("substitution_checked")
                if (mv, md) != (tv, td):
                    acc.violate("c18:reported-constant-not-the-one-used", "%r = %s [%s], but substituting the reported constants %s gives %s [%s]" % (
                        text, tv, G.si.fmt_dims(td), [(x["phrase"], x["description"]) for x in descs], mv, G.si.fmt_dims(md)), case)
                    continue
                acc.sample({"query": text, "lookups": want, "si_value": str(tv)}, cap=1)
            elif tree is not None and not (len(values) == 1 and values[0][0] == "ok"):
                acc.count("queries_with_error_results")
    finally:
        d.close()
    return acc

def run(tier, seed):
    t0 = time.time()
    bins = {k: build.build(k)["vdriver"] for k in ("dbg", "rel")}
    with Driver(bins["dbg"]) as d:
        facts, _ = FX.load(d)
    ty = [{"tokens": f["tokens"]} for f in facts if FX.typeable(f["tokens"])]
    n = 450 if tier == "quick" else 1500
    payloads = [{"seed": seed, "shard": i, "facts": ty, "n": n, "bin": bins["dbg"], "kind": "dbg"} for i in range(NCPU)]
    payloads += [{"seed": seed, "shard": 100 + i, "facts": ty, "n": n // 3, "bin": bins["rel"], "kind": "rel"} for i in range(NCPU if tier == "thorough" else 4)]
    acc = run_shards(shard, payloads)
    return finish(PID, tier, seed, "exploration", acc, RULE, t0,
                  assumptions=["the lookup log is written by the hook inside Db::lookup (database boundary), not inside the evaluator",
                               "which operand the evaluator visits first is a don't-care: descriptions must follow the lookups actually performed"],
                  extra={"histories": len(payloads)}, min_eval=500)

def replay(path):
    v = json.load(open(path))
    c = v["case"]
    from core.driver import replay_env
    with Driver(build.build(c.get("build", "dbg"))["vdriver"], env=replay_env(c)) as d:
        for q0, f0 in c.get("preceded_by", []):
            d.call({"op": "query", "q": q0, "describe": f0})
        rep = d.call({"op": "query", "q": c["query"], "describe": c["describe"]})
    print(json.dumps({"query": c["query"], "now": {"items": rep.get("items"), "descs": [(x["phrase"], x["description"]) for x in rep.get("descs", [])], "events": rep.get("events")}}, ensure_ascii=False))
    return 0
