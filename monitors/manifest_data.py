HOOK_COMMITS = ["0feee23", "69c03c3"]

CHECKS = {
 "C01": {
  "level": "exploration",
  "technique": "runtime monitor: reference-model oracle (exact Fraction evaluator) over generated expression trees, debug and release builds",
  "text": "Random expression trees (depth <= 5 quick / 8 thorough) over every literal form are evaluated by the real query() in the debug-assertion and release builds and compared, as reduced numerator/denominator, with an independent exact evaluation of the same tree; division by zero must come back as an error. Held on the trees explored, not proved.",
  "note": "Trusts Python's Fraction arithmetic and that the generator spells the tree it evaluates (two spellings per tree cross-check this).",
 },
}

NOT_APPLICABLE = {}
