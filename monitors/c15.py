"""C15 - the on-disk index always recovers to the shipped data (fault enumeration over crash points x prior states)."""
import collections, json, os, shutil, signal, subprocess, tempfile, time
from core import build, facts as FX
from core.driver import Driver
from core.run import Acc, finish, rng_for, run_shards, NCPU, h64

PID = "C15"
CRASHPOINTS = ["meta_invalidated", "dir_removed", "dir_created", "index_created", "index_ready", "writer_created", "deleted_all",
               "doc_added@1", "doc_added@439", "doc_added@878", "asset_loaded@1", "asset_loaded@2", "before_commit", "after_commit",
               "after_reload", "before_write_meta", "meta_created_empty", "after_write_meta"]
RULE = ("histories = prior directory state x injected fault x (clean start | second fault then clean start). Prior states: absent; valid "
        "current; written by another version (also by a patch / minor / pre-release sibling of the running version, over the current index, a foreign index of the same size, or an index with another layout under the same field names); written for other data (a foreign index with the same schema whose documents answer the probe "
        "phrases with poisoned values, meta claiming an old hash or another version); meta.json missing / empty / truncated at several bytes / "
        "not JSON / JSON of the wrong shape; the product of nine meta.json kinds x seven index kinds (current, foreign, same-size foreign, other tokenizer, other field names, missing, empty); index directory missing / empty / without tantivy's meta.json / with a garbage one; plus every "
        "state a crash leaves behind. Faults: process abort at each named cfg(anything_verif) crash point (the CRASHPOINT marker and SIGABRT "
        "are checked; an unreached point is recorded as such and the run counts as a clean start), and kill -9 injected by strace at EVERY "
        "openat/write/rename/fdatasync/unlink/mkdir call of a rebuild (counted per thread on a traced clean start; quick: from three prior states, thorough: from all, plus double kills); an injected I/O error (ENOSPC, EIO, "
        "EACCES) at every write/fdatasync/rename/openat/mkdir/unlink call instead of a crash (release build, where the shipped data is embedded); a crash, then damage from outside (index directory or meta.json deleted / scribbled over), then another crash; two instances "
        "started at once (the second while the first holds the writer lock; the first finishes or is killed). After EVERY process exit an independent tantivy reader checks the invariant `meta.json "
        "names this version and data hash => the index holds exactly the shipped payloads`; after every clean start the probe answers must "
        "equal those of a fresh in-memory database and meta.json must be current. non-trivial = distinct history (state, faults)")

def run_driver(binp, home, lines, crash=None, timeout=300, prefix=None):
    env = dict(os.environ, XDG_DATA_HOME=home)
    env.pop("ANYTHING_VERIF_CRASH", None)
    if crash:
        env["ANYTHING_VERIF_CRASH"] = crash
    data = "".join(json.dumps(l) + "\n" for l in lines).encode()
    try:
        r = subprocess.run((prefix or []) + [binp], input=data, env=env, stdout=subprocess.PIPE, stderr=subprocess.PIPE, timeout=timeout)
    except subprocess.TimeoutExpired:
        return {"status": "timeout"}
    out = []
    for l in r.stdout.decode("utf-8", "replace").split("\n"):
        try:
            out.append(json.loads(l))
        except Exception:
            pass
    err = r.stderr.decode("utf-8", "replace")
    return {"status": "exit", "code": r.returncode, "replies": out, "stderr": err[-2000:], "marker": [l for l in err.splitlines() if l.startswith("CRASHPOINT")]}

def meta_of(home):
    p = os.path.join(home, "facts", "meta.json")
    try:
        raw = open(p, "rb").read()
    except FileNotFoundError:
        return None, None
    try:
        return raw, json.loads(raw)
    except Exception:
        return raw, "unparsable"

def check_invariant(acc, ctx, insp, home, history, after, judge=True):
    """judge=False: only tell whether the invariant holds (used on the constructed prior state, which is an input and not
    the tool's doing; if it already breaks the invariant - meta current over a missing/broken index - a later crash before the
    tool touched anything would otherwise be blamed on the tool; such histories rely on the recovery oracle alone)."""
    acc.count("invariant_checks" if judge else "invariant_probes_of_prior_state")
    raw, m = meta_of(home)
    current = isinstance(m, dict) and m.get("version") == ctx["version"] and m.get("database_hash") == ctx["hash"]
    if not current:
        acc.count("invariant_meta_not_current")
        return current
    acc.count("invariant_meta_current")
    r = insp.call({"op": "read_index", "dir": os.path.join(home, "facts", "index")}, timeout=300)
    good = "ok" in r and r["ok"]["docs"] == ctx["docs"] and r["ok"]["digest"] == ctx["digest"]
    if not good and not judge:
        return None
    if not good:
        obs = r.get("ok") or r
        if isinstance(obs, dict):
            obs = {k: v for k, v in obs.items() if k != "descriptions"}
        acc.violate("c15:meta-current-but-index-not-the-shipped-data:" + history["state"].split("@")[0] + ":" + (history["faults"][0].split("@")[0] if history["faults"] else "none"),
                    "after %s of history %s meta.json names the current version and data hash, but the index directory read independently holds %s (expected %d documents, digest %s)" % (
                        after, hist_str(history), obs, ctx["docs"], ctx["digest"]), dict(history=history, after=after, observed=obs))
    return current

def hist_str(h):
    return "[state=%s; faults=%s]" % (h["state"], ",".join(h["faults"]) or "none")

def clean_start(acc, ctx, insp, home, history, label):
    lines = [{"op": "db", "mode": "disk"}] + [{"op": "query", "q": q, "describe": True} for q in ctx["probes"]]
    r = run_driver(ctx["bin"], home, lines)
    acc.count("clean_starts")
    if r["status"] != "exit" or r["code"] != 0 or not r["replies"]:
        acc.violate("c15:clean-start-fails:" + history["state"].split("@")[0], "a start without faults after %s exits abnormally: %s" % (hist_str(history), (r.get("stderr") or "")[-300:] or r), dict(history=history, observed=r.get("code"), stderr=r.get("stderr")))
        return False
    first = r["replies"][0]
    if "ok" not in first:
        acc.violate("c15:never-recovers:" + history["state"].split("@")[0], "a start without faults after %s cannot open the database: %s" % (hist_str(history), first), dict(history=history, observed=first))
        return False
    answers = []
    for rep in r["replies"][1:]:
        items = rep.get("items") or []
        descs = rep.get("descs") or []
        if len(items) == 1 and "ok" in items[0] and len(descs) == 1:
            answers.append([descs[0]["description"], items[0]["ok"]["v"], items[0]["ok"]["u"]])
        else:
            answers.append(["no-answer", [it.get("err", {}).get("msg", "?") for it in items]])
    acc.count("probe_answers_compared", len(answers))
    if answers != ctx["reference"]:
        diff = [(q, a, b) for q, a, b in zip(ctx["probes"], ctx["reference"], answers) if a != b][:3]
        acc.violate("c15:answers-differ-from-in-memory:" + history["state"].split("@")[0] + ":" + (history["faults"][0].split("@")[0] if history["faults"] else "none"),
                    "after %s the %s start answers differently from a fresh in-memory database, e.g. %s" % (hist_str(history), label, diff), dict(history=history, differences=diff))
        return False
    check_invariant(acc, ctx, insp, home, history, label + " start")
    raw, m = meta_of(home)
    if not (isinstance(m, dict) and m.get("version") == ctx["version"] and m.get("database_hash") == ctx["hash"]):
        acc.violate("c15:meta-not-current-after-clean-start", "after %s and a clean start meta.json is %r" % (hist_str(history), raw), dict(history=history, meta=repr(raw)))
        return False
    return True

# ---------------------------------------------------------------- prior states
def st_absent(ctx, home, insp):
    pass

def st_valid(ctx, home, insp):
    shutil.copytree(os.path.join(ctx["valid_home"], "facts"), os.path.join(home, "facts"))

def _meta_path(home):
    return os.path.join(home, "facts", "meta.json")

def st_other_version(ctx, home, insp):
    st_valid(ctx, home, insp)
    m = json.load(open(_meta_path(home)))
    m["version"] = "0.0.1"
    json.dump(m, open(_meta_path(home), "w"))

def version_siblings(v):
    """Version strings that are NOT this version but close to it: next/previous patch, next minor, a pre-release tag, a patch with one
    more digit, a truncation (seed C15-g: only major.minor compared). Anything but string equality with the running version means
    `written by another version`."""
    parts = v.split(".")
    out = []
    try:
        nums = [int(x) for x in parts]
    except ValueError:
        nums = None
    if nums and len(nums) == 3:
        out.append("%d.%d.%d" % (nums[0], nums[1], nums[2] + 1))
        out.append("%d.%d.%d" % (nums[0], nums[1], nums[2] - 1 if nums[2] else 9))
        out.append("%d.%d.0" % (nums[0], nums[1] + 1))
        out.append("%d.%d.%d0" % (nums[0], nums[1], nums[2]))
    out += [v + "-rc.1", v.rsplit(".", 1)[0]]
    return [x for x in dict.fromkeys(out) if x != v]

def build_foreign_template(ctx, insp, path, same_size, layout=None):
    docs = [{"tokens": q.split(" "), "description": "POISON for " + q, "value": -424242} for q in ctx["probes"]]
    if layout:
        tmp = path + ".tmp%d" % os.getpid()
        r = insp.call({"op": "build_foreign", "dir": tmp, "docs": docs[:3], "layout": layout}, timeout=300)
        assert "ok" in r, r
        try:
            os.rename(tmp, path)
        except OSError:
            shutil.rmtree(tmp, ignore_errors=True)
        return
    if same_size:
        docs += [{"tokens": ["filler%d" % i], "description": "filler %d" % i, "value": i} for i in range(ctx["docs"] - len(docs))]
    tmp = path + ".tmp%d" % os.getpid()
    r = insp.call({"op": "build_foreign", "dir": tmp, "docs": docs}, timeout=300)
    assert "ok" in r, r
    try:
        os.rename(tmp, path)
    except OSError:
        shutil.rmtree(tmp, ignore_errors=True)      # another shard was faster

def st_foreign(kind, same_size=False):
    """An index for OTHER data (same schema; its documents answer the probe phrases with poisoned values). same_size: padded with filler
    documents to exactly the shipped document count, so that nothing but its content tells it from the shipped data (seed C15-c).
    kind: what meta.json says - an old hash, another version, or nothing at all / nothing usable (a rebuild that was killed right
    after it had forgotten the metadata leaves exactly that behind)."""
    def f(ctx, home, insp):
        os.makedirs(os.path.join(home, "facts"))
        tpl = os.path.join(ctx["valid_home"], "foreign-same-size" if same_size else "foreign")
        if not os.path.isdir(tpl):       # built once per run (prepare), copied per history
            build_foreign_template(ctx, insp, tpl, same_size)
        shutil.copytree(tpl, os.path.join(home, "facts", "index"))
        if kind == "oldhash":
            json.dump({"version": ctx["version"], "database_hash": "00000000000000000000000000000000"}, open(_meta_path(home), "w"))
        elif kind == "otherversion":
            json.dump({"version": "0.0.9", "database_hash": ctx["hash"]}, open(_meta_path(home), "w"))
        elif kind == "metaempty":
            open(_meta_path(home), "w").close()
        elif kind == "metaemptyobject":
            open(_meta_path(home), "w").write("{}")
        # kind == "metamissing": no meta.json at all
    return f

def st_sibling(version, index_kind):
    """meta.json names a sibling of the running version (and the CURRENT data hash); the index directory is the current one, a foreign one
    of the same size, or one written with another layout under the same field names (word tokenizer instead of prefix n-grams)."""
    def f(ctx, home, insp):
        if index_kind == "valid":
            st_valid(ctx, home, insp)
        else:
            os.makedirs(os.path.join(home, "facts"))
            name = "foreign-same-size" if index_kind == "foreign" else "foreign-words-layout"
            tpl = os.path.join(ctx["valid_home"], name)
            if not os.path.isdir(tpl):
                build_foreign_template(ctx, insp, tpl, True, "words" if index_kind == "layout" else None)
            shutil.copytree(tpl, os.path.join(home, "facts", "index"))
        json.dump({"version": version, "database_hash": ctx["hash"]}, open(_meta_path(home), "w"))
    return f

META_KINDS = {
    "old-hash": lambda ctx: json.dumps({"version": ctx["version"], "database_hash": "00000000000000000000000000000000"}).encode(),
    "sibling-version": lambda ctx: json.dumps({"version": version_siblings(ctx["version"])[0], "database_hash": ctx["hash"]}).encode(),
    "other-version": lambda ctx: json.dumps({"version": "0.0.9", "database_hash": ctx["hash"]}).encode(),
    "missing": None,
    "empty": lambda ctx: b"",
    "garbage": lambda ctx: b"\x00\xff not json at all \x7f",
    "hash-only": lambda ctx: json.dumps({"database_hash": ctx["hash"]}).encode(),
    "version-only": lambda ctx: json.dumps({"version": ctx["version"]}).encode(),
    "hash-null": lambda ctx: json.dumps({"version": ctx["version"], "database_hash": None}).encode(),
    # the current hash in another spelling (upper case, zero-padded, a leading plus): not what this version writes, hence not "current"
    # (seed C15-k: hashes compared as numbers)
    "hash-uppercase": lambda ctx: json.dumps({"version": ctx["version"], "database_hash": ctx["hash"].upper() if ctx["hash"].upper() != ctx["hash"] else "0" + ctx["hash"]}).encode(),
    "hash-zero-padded": lambda ctx: json.dumps({"version": ctx["version"], "database_hash": "00" + ctx["hash"]}).encode(),
}
INDEX_KINDS = ["valid", "foreign", "foreign-same-size", "foreign-words-layout", "foreign-other-fields", "missing", "empty"]

def st_combo(meta_kind, index_kind):
    """Prior states composed from independent parts: what meta.json says x what the index directory holds. (meta.json naming the
    current version AND hash over a foreign index is left out: no run can produce it and the tool cannot detect it.) Seed C15-h needs a
    version-less meta.json next to an index with other field names - a pair no list of single named states contains."""
    def f(ctx, home, insp):
        os.makedirs(os.path.join(home, "facts"))
        idx = os.path.join(home, "facts", "index")
        if index_kind == "valid":
            shutil.copytree(os.path.join(ctx["valid_home"], "facts", "index"), idx)
        elif index_kind == "empty":
            os.makedirs(idx)
        elif index_kind != "missing":
            shutil.copytree(os.path.join(ctx["valid_home"], index_kind), idx)
        content = META_KINDS[meta_kind]
        if content is not None:
            open(_meta_path(home), "wb").write(content(ctx))
    return f

def st_meta(content):
    def f(ctx, home, insp):
        st_valid(ctx, home, insp)
        if content is None:
            os.unlink(_meta_path(home))
        else:
            open(_meta_path(home), "wb").write(content(ctx) if callable(content) else content)
    return f

def st_index(kind):
    def f(ctx, home, insp):
        st_valid(ctx, home, insp)
        idx = os.path.join(home, "facts", "index")
        if kind == "missing":
            shutil.rmtree(idx)
        elif kind == "empty":
            shutil.rmtree(idx)
            os.makedirs(idx)
        elif kind == "no-tantivy-meta":
            os.unlink(os.path.join(idx, "meta.json"))
        elif kind == "garbage-tantivy-meta":
            open(os.path.join(idx, "meta.json"), "w").write("{ this is not json")
        elif kind == "foreign-with-current-meta-missing-index-then":
            pass
    return f

def states(ctx):
    valid_meta = open(_meta_path(ctx["valid_home"]), "rb").read()
    S = collections.OrderedDict()
    S["absent"] = st_absent
    S["valid-current"] = st_valid
    S["other-version"] = st_other_version
    S["other-data-old-hash"] = st_foreign("oldhash")
    S["other-data-other-version"] = st_foreign("otherversion")
    S["other-data-meta-missing"] = st_foreign("metamissing")
    S["other-data-same-size-old-hash"] = st_foreign("oldhash", True)
    S["other-data-same-size-other-version"] = st_foreign("otherversion", True)
    S["other-data-same-size-meta-missing"] = st_foreign("metamissing", True)
    S["other-data-same-size-meta-empty"] = st_foreign("metaempty", True)
    S["other-data-same-size-meta-empty-object"] = st_foreign("metaemptyobject", True)
    for v in version_siblings(ctx["version"]):
        for kind in ("valid", "foreign", "layout"):
            S["sibling-version-%s-index-%s" % (v, kind)] = st_sibling(v, kind)
    for mk in META_KINDS:
        for ik in INDEX_KINDS:
            if ik in ("foreign-words-layout", "foreign-other-fields") and mk in ("old-hash", "version-only", "hash-null", "hash-uppercase", "hash-zero-padded"):
                # meta.json naming THIS version over an index in another layout: the layout is a function of the version, so no
                # release can have written this pair, and the tool (which trusts a matching version) cannot tell - not demanded
                continue
            S["combo:%s+%s" % (mk, ik)] = st_combo(mk, ik)
    # unparsable TEXT with non-ASCII characters at every offset around where a log line might cut it (40..70 bytes): "meta garbage" is
    # not only binary garbage (seed C15-i: the error message quotes the first 48 BYTES of the file)
    for k in range(40, 71, 1):
        S["combo:text-garbage@%d+valid" % k] = st_meta(("-" * k + "été index ☃ do not touch 𝄞\n").encode("utf-8"))
    S["meta-missing"] = st_meta(None)
    S["meta-empty"] = st_meta(b"")
    for k in (1, len(valid_meta) // 2, len(valid_meta) - 1):
        S["meta-truncated@%d" % k] = st_meta(valid_meta[:k])
    S["meta-garbage"] = st_meta(b"\x00\xff not json at all \x7f")
    S["meta-wrong-shape-array"] = st_meta(b"[1, 2, 3]")
    S["meta-wrong-shape-types"] = st_meta(b'{"version": 5, "database_hash": ["x"]}')
    S["meta-empty-object"] = st_meta(b"{}")
    S["meta-version-only"] = st_meta(lambda ctx: json.dumps({"version": ctx["version"]}).encode())
    S["meta-hash-null"] = st_meta(lambda ctx: json.dumps({"version": ctx["version"], "database_hash": None}).encode())
    S["meta-hash-only"] = st_meta(lambda ctx: json.dumps({"database_hash": ctx["hash"]}).encode())
    S["index-missing"] = st_index("missing")
    S["index-empty"] = st_index("empty")
    S["index-no-tantivy-meta"] = st_index("no-tantivy-meta")
    S["index-garbage-tantivy-meta"] = st_index("garbage-tantivy-meta")
    return S

# ---------------------------------------------------------------- histories
def shard(p):
    acc = Acc()
    ctx = p["ctx"]
    insp = Driver(ctx["bin"])
    S = states(ctx)
    try:
        for h in p["histories"]:
            home = tempfile.mkdtemp(prefix="c15-")
            try:
                S[h["state"]](ctx, home, insp)
                acc.evaluations += 1
                acc.nontriv(json.dumps(h))
                acc.count("state:" + h["state"].split("@")[0])
                # (the prior state is an input, not the tool's doing: the invariant is judged after the tool's own runs only)
                prior_ok = check_invariant(acc, ctx, insp, home, h, "setup", judge=False) is not None
                if not prior_ok:
                    acc.count("histories_whose_prior_state_already_breaks_the_invariant")
                for fault in h["faults"]:
                    prefix = None
                    crash = fault
                    if fault.startswith("damage:"):
                        # something outside the tool changes the directory between two starts (the index directory is deleted,
                        # meta.json is lost or scribbled over): from here on the invariant is only judged again if it still holds
                        kind = fault.split(":", 1)[1]
                        idx, mp = os.path.join(home, "facts", "index"), _meta_path(home)
                        try:
                            if kind == "index-missing":
                                shutil.rmtree(idx, ignore_errors=True)
                            elif kind == "index-empty":
                                shutil.rmtree(idx, ignore_errors=True)
                                os.makedirs(idx, exist_ok=True)
                            elif kind == "index-no-tantivy-meta":
                                os.unlink(os.path.join(idx, "meta.json"))
                            elif kind == "meta-missing":
                                os.unlink(mp)
                            elif kind == "meta-garbage":
                                open(mp, "wb").write(b"\x00\xff not json")
                        except OSError:
                            pass
                        acc.count("damage:" + kind)
                        prior_ok = check_invariant(acc, ctx, insp, home, h, "damage", judge=False) is not None
                        continue
                    if fault == "inmemory-session":
                        # an in-memory session of the same tool with the same data directory configured (the test suite, a library user):
                        # it must leave the on-disk state alone - in particular it must not vouch for an index it never touched
                        # (seed C14-k: `meta.json` written whenever the index directory exists)
                        r = run_driver(ctx["bin"], home, [{"op": "db", "mode": "in_memory"}, {"op": "query", "q": ctx["probes"][0]}])
                        acc.count("inmemory_sessions_between_starts")
                        if prior_ok:
                            check_invariant(acc, ctx, insp, home, h, "fault " + fault)
                        continue
                    if fault.startswith("concurrent"):
                        concurrent_start(acc, ctx, home, h, kill_first=fault.endswith("kill"))
                        if prior_ok:
                            check_invariant(acc, ctx, insp, home, h, "fault " + fault)
                        continue
                    if fault.startswith("errinj:"):
                        # an I/O error instead of a crash: the N-th call of one kind fails (disk full, I/O error, no permission).
                        # The start may fail or fall back - whatever it does, it must not record the index as current unless it is
                        _, call, err, n = fault.split(":")
                        # (release build: there the shipped data is embedded in the binary; a debug build reads it from the source
                        #  tree at run time, and an error injected into THAT read is not a state of the data directory)
                        r = run_driver(ctx["bin_rel"], home, [{"op": "db", "mode": "disk"}],
                                       prefix=["strace", "-f", "-o", "/dev/null", "-e", "trace=" + call, "-e", "inject=%s:error=%s:when=%s" % (call, err, n)])
                        if r["status"] != "exit":
                            acc.inconc("start with an injected error timed out: %s %s" % (hist_str(h), fault))
                            continue
                        opened = bool(r["replies"]) and "ok" in r["replies"][0]
                        acc.count("errinj:%s:%s:%s" % (call, err, "start-succeeded" if opened else "start-reported-an-error"))
                        if prior_ok:
                            check_invariant(acc, ctx, insp, home, h, "fault " + fault)
                        continue
                    if fault.startswith("strace:"):
                        _, call, n = fault.split(":")
                        prefix = ["strace", "-f", "-o", "/dev/null", "-e", "trace=" + call, "-e", "inject=%s:signal=KILL:when=%s" % (call, n)]
                        crash = None
                    r = run_driver(ctx["bin"], home, [{"op": "db", "mode": "disk"}], crash=crash, prefix=prefix)
                    if r["status"] != "exit":
                        acc.inconc("faulted start timed out: %s %s" % (hist_str(h), fault))
                        continue
                    if crash:
                        fired = r["code"] == -signal.SIGABRT and r["marker"]
                        acc.count(("fired:" if fired else "not-reached:") + fault)
                        if not fired and r["code"] != 0:
                            acc.violate("c15:faulted-start-error:" + h["state"].split("@")[0], "start with crash point %s (not reached) after %s failed: %s" % (fault, hist_str(h), r["stderr"][-300:]), dict(history=h, stderr=r["stderr"]))
                    else:
                        killed = r["code"] == -signal.SIGKILL
                        acc.count(("killed:" if killed else "survived:") + fault.rsplit(":", 1)[0])
                    if prior_ok:
                        check_invariant(acc, ctx, insp, home, h, "fault " + fault)
                ok = clean_start(acc, ctx, insp, home, h, "first clean")
                if ok and h.get("second_clean"):
                    clean_start(acc, ctx, insp, home, h, "second clean")
                if ok:
                    acc.sample({"history": h, "outcome": "invariant held after every exit; clean start answered like the in-memory database; meta current"}, cap=1)
            finally:
                shutil.rmtree(home, ignore_errors=True)
    finally:
        insp.close()
    return acc

SYSCALLS = ["openat", "write", "renameat", "rename", "renameat2", "fdatasync", "fsync", "unlink", "unlinkat", "mkdir", "mkdirat", "ftruncate"]

def syscall_counts(ctx, state, binkey="bin"):
    """How many calls of each kind one uninterrupted start makes from the given prior state (traced once per run): the kill sweep
    then covers EVERY one of them - each is a boundary between two durable effects of the rebuild."""
    home = tempfile.mkdtemp(prefix="c15-trace-")
    out = os.path.join(home, "trace.txt")
    try:
        with Driver(ctx["bin"]) as insp:
            states(ctx)[state](ctx, home, insp)
        r = run_driver(ctx[binkey], home, [{"op": "db", "mode": "disk"}], prefix=["strace", "-f", "-o", out, "-e", "trace=" + ",".join(SYSCALLS)])
        # strace counts `when=N` per traced thread: the sweep runs N up to the largest per-thread count of each call
        per = collections.Counter()
        for line in open(out, errors="replace"):
            parts = line.split(None, 2)
            if len(parts) >= 2:
                name = parts[1].split("(", 1)[0]
                if name in SYSCALLS:
                    per[(parts[0], name)] += 1
        counts = {}
        for (tid, name), n in per.items():
            counts[name] = max(counts.get(name, 0), n)
        return counts if r.get("status") == "exit" and r.get("code") == 0 else {}
    finally:
        shutil.rmtree(home, ignore_errors=True)

def concurrent_start(acc, ctx, home, h, kill_first):
    """Two instances at once: A rebuilds slowly (producer-side delay hook) and holds the index writer lock, B starts meanwhile
    (and may fail or fall back); then A finishes, or is killed. Only the invariant and the later clean start are judged."""
    env = dict(os.environ, XDG_DATA_HOME=home, ANYTHING_VERIF_DELAY="7:3000:1000")
    env.pop("ANYTHING_VERIF_CRASH", None)
    a = subprocess.Popen([ctx["bin"]], stdin=subprocess.PIPE, stdout=subprocess.PIPE, stderr=subprocess.DEVNULL, env=env)
    try:
        a.stdin.write((json.dumps({"op": "db", "mode": "disk"}) + "\n").encode())
        a.stdin.flush()
        lock = os.path.join(home, "facts", "index", ".tantivy-writer.lock")
        t_end = time.time() + 10
        def is_held():
            import fcntl
            try:
                fd = os.open(lock, os.O_RDWR)
            except OSError:
                return False
            try:
                fcntl.flock(fd, fcntl.LOCK_EX | fcntl.LOCK_NB)
                fcntl.flock(fd, fcntl.LOCK_UN)
                return False
            except OSError:
                return True
            finally:
                os.close(fd)
        held = False
        while time.time() < t_end and a.poll() is None:
            held = is_held()
            if held:
                break
            time.sleep(0.003)
        time.sleep(0.02)
        r = run_driver(ctx["bin"], home, [{"op": "db", "mode": "disk"}])
        opened = r.get("status") == "exit" and bool(r.get("replies")) and "ok" in r["replies"][0]
        acc.count("concurrent:%s:second-instance-%s" % ("writer-lock-held-by-first" if held else "first-never-took-the-writer-lock", "opened" if opened else "reported-an-error"))
        if kill_first:
            a.kill()
        else:
            try:
                a.stdin.close()
            except Exception:
                pass
        a.wait(timeout=120)
    except Exception as ex:
        acc.inconc("concurrent start: %r" % (ex,))
    finally:
        if a.poll() is None:
            a.kill()
            a.wait()

def prepare(binp):
    """Reference answers, probe phrases, the identity of a current meta.json, the expected payload digest."""
    ctx = {"bin": binp}
    with Driver(binp) as d:
        facts, _ = FX.load(d)
        phrases = [" ".join(f["tokens"]) for f in facts if FX.typeable(f["tokens"])]
        tk = d.call_many([{"op": "topk", "phrase": q, "k": 2} for q in phrases], timeout=600)
        unamb = [q for q, r in zip(phrases, tk) if "ok" in r and len(r["ok"]) == 2 and r["ok"][0][0] > r["ok"][1][0]]
        probes = unamb[:: max(1, len(unamb) // 120)][:120]
        # ... and abbreviated phrases (every word cut to a prefix of 4-6 letters: `popul finl`), which only an index with the
        # shipped layout (prefix n-grams with positions) answers like the in-memory database does
        abbr = []
        for q in unamb[3:: max(1, len(unamb) // 150)]:
            ws = q.split(" ")
            a = " ".join(w[:max(4, len(w) - 2)][:6] for w in ws)
            if a != q and a not in abbr:
                abbr.append(a)
        tk2 = d.call_many([{"op": "topk", "phrase": q, "k": 2} for q in abbr], timeout=600)
        probes += [q for q, r in zip(abbr, tk2) if "ok" in r and len(r["ok"]) == 2 and r["ok"][0][0] > r["ok"][1][0]][:40]
        ref = []
        for rep in d.call_many([{"op": "query", "q": q, "describe": True} for q in probes], timeout=600):
            ref.append([rep["descs"][0]["description"], rep["items"][0]["ok"]["v"], rep["items"][0]["ok"]["u"]])
        exp = d.call({"op": "expected_payload_digest", "dir": build.REPO + "/db"})["ok"]
    ctx.update({"probes": probes, "reference": ref, "docs": exp["docs"], "digest": exp["digest"]})
    valid_home = tempfile.mkdtemp(prefix="c15-valid-")
    r = run_driver(binp, valid_home, [{"op": "db", "mode": "disk"}])
    if r["status"] != "exit" or r["code"] != 0 or "ok" not in (r["replies"] or [{}])[0]:
        raise RuntimeError("cannot build a valid data directory: %r" % (r,))
    raw, m = meta_of(valid_home)
    ctx.update({"valid_home": valid_home, "version": m["version"], "hash": m["database_hash"]})
    with Driver(binp) as d:
        got = d.call({"op": "read_index", "dir": os.path.join(valid_home, "facts", "index")})
    if "ok" not in got or got["ok"]["digest"] != ctx["digest"] or got["ok"]["docs"] != ctx["docs"]:
        raise RuntimeError("harness self-check failed: a cleanly built index does not hold the expected payload digest: %r vs %r" % (got, exp))
    with Driver(binp) as d:
        build_foreign_template(ctx, d, os.path.join(valid_home, "foreign"), False)
        build_foreign_template(ctx, d, os.path.join(valid_home, "foreign-same-size"), True)
        build_foreign_template(ctx, d, os.path.join(valid_home, "foreign-words-layout"), True, "words")
        build_foreign_template(ctx, d, os.path.join(valid_home, "foreign-other-fields"), True, "fields")
    return ctx

def run(tier, seed):
    t0 = time.time()
    binp = build.build("dbg")["vdriver"]
    ctx = prepare(binp)
    ctx["bin_rel"] = build.build("rel")["vdriver"]
    rng = rng_for(seed, PID)
    try:
        snames = list(states(ctx))
        hs = []
        combos = [s for s in snames if s.startswith("combo:")]
        snames = [s for s in snames if not s.startswith("combo:")]
        for s in combos:
            # composed states: a clean start, the three earliest crash points (before anything of the old directory is gone) and two
            # random ones, each followed by clean starts
            hs.append({"state": s, "faults": [], "second_clean": True})
            for c in ["meta_invalidated", "dir_removed", "dir_created"] + [rng.choice(CRASHPOINTS) for _ in range(2 if tier == "quick" else 8)]:
                hs.append({"state": s, "faults": [c], "second_clean": True})
        for s in snames:
            hs.append({"state": s, "faults": [], "second_clean": True})
            for c in CRASHPOINTS:
                hs.append({"state": s, "faults": [c]})
        n_double = 500 if tier == "quick" else 0
        doubles = [{"state": s, "faults": [c1, c2]} for s in snames for c1 in CRASHPOINTS for c2 in CRASHPOINTS]
        sweep_states = ["absent", "other-data-same-size-old-hash", "index-missing"] if tier == "quick" else snames
        sweep_counts = {}
        for s in sweep_states:
            sweep_counts[s] = syscall_counts(ctx, s)
            for call, cnt in sorted(sweep_counts[s].items()):
                for n in range(1, cnt + 2):       # + 1: one past the last call must survive (shows that the sweep reached the end)
                    hs.append({"state": s, "faults": ["strace:%s:%d" % (call, n)]})
        # I/O errors instead of crashes (strace error injection) and two instances at once
        err_states = ["absent", "other-data-same-size-old-hash", "other-version", "index-missing"] if tier == "quick" else snames
        for s in err_states:
            c = syscall_counts(ctx, s, "bin_rel")
            for call, errs in (("write", ["ENOSPC"]), ("fdatasync", ["EIO"]), ("renameat", ["ENOSPC"]), ("openat", ["ENOSPC", "EACCES"]), ("mkdir", ["ENOSPC"]), ("unlink", ["EACCES"])):
                for n in range(1, c.get(call, 0) + 1):
                    if tier == "quick" and call in ("write", "openat") and n % 2 == (h64(s) % 2):
                        continue
                    for e in errs:
                        hs.append({"state": s, "faults": ["errinj:%s:%s:%d" % (call, e, n)], "second_clean": True})
        # crash, outside damage, crash: the second start meets what the first one left plus a directory somebody tampered with
        DAMAGE = ["damage:index-missing", "damage:index-empty", "damage:index-no-tantivy-meta", "damage:meta-missing", "damage:meta-garbage"]
        for _ in range(600 if tier == "quick" else 6000):
            hs.append({"state": rng.choice(snames), "faults": [rng.choice(CRASHPOINTS), rng.choice(DAMAGE), rng.choice(CRASHPOINTS)], "second_clean": True})
        for s in combos + snames:
            # an in-memory session between the prior state (or an interrupted rebuild) and the next on-disk start
            hs.append({"state": s, "faults": ["inmemory-session"], "second_clean": True})
            if rng.random() < 0.5:
                hs.append({"state": s, "faults": [rng.choice(["dir_created", "index_created", "before_commit", "meta_invalidated"]), "inmemory-session"], "second_clean": True})
        for s in snames:
            hs.append({"state": s, "faults": ["concurrent"]})
            hs.append({"state": s, "faults": ["concurrent-kill"]})
        if tier == "quick":
            rng.shuffle(doubles)
            hs += doubles[:n_double]
        else:
            hs += doubles
            # triple faults, sampled
            for _ in range(1500):
                hs.append({"state": rng.choice(snames), "faults": [rng.choice(CRASHPOINTS) for _ in range(3)], "second_clean": True})
            # two syscall-level kills in a row (the second start is a recovery that gets killed as well)
            for _ in range(3000):
                s = rng.choice(snames)
                c = sweep_counts.get(s) or {}
                if not c:
                    continue
                f = []
                for _k in range(2):
                    call = rng.choice(sorted(c))
                    f.append("strace:%s:%d" % (call, rng.randint(1, c[call])))
                hs.append({"state": s, "faults": f})
        rng.shuffle(hs)
        payloads = [{"ctx": ctx, "histories": hs[i::NCPU * 4]} for i in range(NCPU * 4) if hs[i::NCPU * 4]]
        acc = run_shards(shard, payloads)
    finally:
        shutil.rmtree(ctx["valid_home"], ignore_errors=True)
    fired = {k.split(":", 1)[1]: v for k, v in acc.counters.items() if k.startswith("fired:")}
    return finish(PID, tier, seed, "fault_enumeration", acc, RULE, t0,
                  assumptions=["process aborts / SIGKILL model crashes (page cache survives); power loss with unsynced data is out of reach of this harness",
                               "`this version and data hash` is what a clean build of the current tree writes into meta.json",
                               "the state `foreign index + meta claiming the CURRENT hash` is not generated: no run can produce it and the tool cannot detect it"],
                  extra={"syscall_kill_sweep": {s: c for s, c in sweep_counts.items()}, "crash_points": CRASHPOINTS, "crash_points_fired": fired, "prior_states": snames + combos, "probe_phrases": len(ctx["probes"])},
                  min_eval=50)

def replay(path):
    v = json.load(open(path))
    c = v["case"]
    binp = build.build("dbg")["vdriver"]
    ctx = prepare(binp)
    ctx["bin_rel"] = build.build("rel")["vdriver"]
    try:
        a = shard({"ctx": ctx, "histories": [c["history"]]})
        print(json.dumps({"history": c["history"], "violations_now": [x["what"] for x in a.violations]}, ensure_ascii=False))
    finally:
        shutil.rmtree(ctx["valid_home"], ignore_errors=True)
    return 0
