"""Exact reference evaluator on fractions.Fraction, independent of the tool.

Trees are tuples:
  ("lit", text, Fraction)            a literal as it will be spelled (percent already applied to the value)
  ("bin", op, left, right)           op in + - * / ^
  ("call", name, [args])             floor / ceil / round
The *generator* owns the tree and spells it; the oracle never parses text.
"""
from fractions import Fraction
import math

PREC = {"+": 2, "-": 2, "*": 3, "/": 3, "^": 10}

class DivZero(Exception):
    pass

class DontCare(Exception):
    pass

class TooBig(Exception):
    pass

MAX_BITS = 70000
MAX_EXP = 4096

def _chk(v):
    if v.numerator.bit_length() > MAX_BITS or v.denominator.bit_length() > MAX_BITS:
        raise TooBig()
    return v

def ev(t):
    k = t[0]
    if k == "lit":
        return t[2]
    if k == "bin":
        op = t[1]
        a = ev(t[2])
        b = ev(t[3])
        if op == "+":
            return _chk(a + b)
        if op == "-":
            return _chk(a - b)
        if op == "*":
            return _chk(a * b)
        if op == "/":
            if b == 0:
                raise DivZero()
            return _chk(a / b)
        if op == "^":
            if b.denominator != 1:
                raise DontCare()
            n = b.numerator
            if abs(n) > MAX_EXP and a != 0:
                raise TooBig()
            if a == 0:
                if n == 0:
                    raise DontCare()
                if n < 0:
                    raise DivZero()
                return Fraction(0)
            if (max(a.numerator.bit_length(), a.denominator.bit_length()) + 1) * abs(n) > MAX_BITS:
                raise TooBig()
            return _chk(a ** n)
        raise ValueError(op)
    if k == "call":
        name = t[1]
        args = [ev(x) for x in t[2]]
        return call(name, args)
    raise ValueError(k)

def floor_(x):
    return Fraction(math.floor(x))

def ceil_(x):
    return Fraction(math.ceil(x))

def round_half_away(x):
    s = -1 if x < 0 else 1
    return Fraction(s * math.floor(abs(x) + Fraction(1, 2)))

def round_digits(x, n):
    p = Fraction(10) ** n
    return round_half_away(x * p) / p

def call(name, args):
    if name == "floor":
        return floor_(args[0])
    if name == "ceil":
        return ceil_(args[0])
    if name == "round":
        if len(args) == 1:
            return round_half_away(args[0])
        return round_digits(args[0], int(args[1]))
    raise ValueError(name)

def prec(t):
    return PREC[t[1]] if t[0] == "bin" else 100

def render(t, style="min", sp=" "):
    """style: 'full' parenthesises every binary node (except the root), 'min' only
    where the documented precedence / left-to-right grouping needs it."""
    k = t[0]
    if k == "lit":
        return t[1]
    if k == "call":
        return t[1] + "(" + ",".join(render(a, style, sp) for a in t[2]) + ")"
    op = t[1]
    l, r = t[2], t[3]
    ls, rs = render(l, style, sp), render(r, style, sp)
    if l[0] == "bin" and (style == "full" or prec(l) < PREC[op]):
        ls = "(" + ls + ")"
    if r[0] == "bin" and (style == "full" or prec(r) <= PREC[op]):
        rs = "(" + rs + ")"
    return ls + sp + op + sp + rs

def ops_of(t, out=None):
    out = [] if out is None else out
    if t[0] == "bin":
        ops_of(t[2], out)
        out.append(t[1])
        ops_of(t[3], out)
    elif t[0] == "call":
        for a in t[2]:
            ops_of(a, out)
    return out

# ---------------------------------------------------------------- literals

def lit_from_text(text):
    """Value of a literal text by the documented grammar (own tiny reader, used by
    generators that build the text first)."""
    s = text
    pct = s.endswith("%")
    if pct:
        s = s[:-1]
    neg = s.startswith("-")
    if s[0] in "+-":
        s = s[1:]
    exp = 0
    for m in "eE":
        if m in s:
            s, e = s.split(m, 1)
            exp = int(e)
            break
    if "." in s:
        i, f = s.split(".", 1)
    else:
        i, f = s, ""
    digits = (i + f) or "0"
    v = Fraction(int(digits)) * Fraction(10) ** (exp - len(f))
    if neg:
        v = -v
    if pct:
        v = v / 100
    return v

def gen_literal(rng, max_digits=12, max_exp=30, allow_neg=True, allow_pct=True, integer=False, boundary=0.04):
    if boundary and max_digits >= 6 and rng.random() < boundary:
        from . import boundary as B
        text = B.literal(rng, allow_neg=allow_neg, allow_frac=not integer)
        if not integer and rng.random() < 0.25:
            text = B.terminating_literal(rng)
            if not allow_neg:
                text = text.lstrip("-")
        if allow_pct and not integer and rng.random() < 0.08:
            text += "%"
        return ("lit", text, lit_from_text(text))
    form = rng.random()
    nd = 1 if rng.random() < 0.35 else rng.randint(1, max_digits)
    if rng.random() < 0.05:
        nd = rng.randint(max_digits, max_digits * 4)        # a tail of long literals (chunked digit readers, bigint limb boundaries)
    digits = "".join(rng.choice("0123456789") for _ in range(nd))
    if rng.random() < 0.15:
        digits = "0" * rng.randint(1, 3) + digits
    text = digits
    if not integer:
        if form < 0.30:
            nf = rng.randint(0, max(1, max_digits // 2))
            frac = "".join(rng.choice("0123456789") for _ in range(nf))
            if rng.random() < 0.12:
                text = "." + (frac or "5")
            else:
                text = digits + "." + frac
        if rng.random() < 0.18:
            e = rng.randint(0, max_exp)
            text += rng.choice("eE") + rng.choice(["", "+", "-"]) + str(e)
    if allow_neg and rng.random() < 0.18:
        text = "-" + text
    if allow_pct and not integer and rng.random() < 0.08:
        text += "%"
    return ("lit", text, lit_from_text(text))

def int_lit(n):
    return ("lit", str(n), Fraction(n))

def gen_tree(rng, depth, max_digits=12, max_exp=30, ops="+-*/^", zero_bias=0.08):
    """Random tree; exponents are integer literals in -8..8 or parenthesised integer-valued subtrees."""
    if depth <= 0 or rng.random() < 0.22:
        if rng.random() < zero_bias:
            return ("lit", rng.choice(["0", "0.0", "00", "0e5", "-0", "0%"]), Fraction(0))
        return gen_literal(rng, max_digits, max_exp)
    op = rng.choice(ops)
    if max_digits >= 6 and rng.random() < 0.015 and "*" in ops:
        # two integers whose product straddles a machine-word boundary (2^63, 2^64, 2^127, 2^128)
        from . import boundary as B
        sa, sb = rng.choice([1, 1, -1]), rng.choice([1, 1, -1])
        r = rng.random()
        if r < 0.4:
            a, b = B.big_pair(rng)
            return ("bin", "*", ("lit", str(sa * a), Fraction(sa * a)), ("lit", str(sb * b), Fraction(sb * b)))
        if r < 0.85 or "^" not in ops:
            # sums, differences and quotients of two boundary integers (carry out of / borrow into the top word)
            op2 = rng.choice([o for o in "+-/*" if o in ops])
            if rng.random() < 0.3 and "/" in ops:
                # (n1 / d1) op (n2 / d2) with all four at the top of a machine word
                (n1, d1), (n2, d2) = B.word_fraction(rng), B.word_fraction(rng)
                if rng.random() < 0.3:
                    n2, d2 = n1, d1
                f1 = ("bin", "/", ("lit", str(sa * n1), Fraction(sa * n1)), ("lit", str(d1), Fraction(d1)))
                f2 = ("bin", "/", ("lit", str(sb * n2), Fraction(sb * n2)), ("lit", str(d2), Fraction(d2)))
                return ("bin", op2, f1, f2)
            if rng.random() < 0.5:
                a, b = B.integers(rng), B.integers(rng)
                if op2 == "/" and b == 0:
                    b = 1
                return ("bin", op2, ("lit", str(sa * a), Fraction(sa * a)), ("lit", str(sb * b), Fraction(sb * b)))
            # ... or of two boundary LITERALS (point moved in, exponent, 1 +- 10^-k), often the same one twice: word-sized
            # numerators over word-sized denominators on both sides (0.9223372036854775807 + 0.9223372036854775807)
            ta = B.literal(rng)
            tb = ta if rng.random() < 0.4 else B.literal(rng)
            if op2 == "-" and tb == ta and rng.random() < 0.5:
                tb = tb[1:] if tb.startswith("-") else "-" + tb
            va, vb = lit_from_text(ta), lit_from_text(tb)
            if op2 == "/" and vb == 0:
                op2 = "+"
            return ("bin", op2, ("lit", ta, va), ("lit", tb, vb))
        # a power that lands on a word boundary: (2^32)^2, (2^16 + 1)^4, (10^5)^4 ...
        n = rng.choice([2, 2, 3, 4, -2])
        a = rng.choice([2 ** (64 // abs(n)), 2 ** (128 // abs(n)), 2 ** (32 // abs(n)), 10 ** rng.randint(3, 10)]) + rng.randint(-2, 2)
        a = max(2, a)
        return ("bin", "^", ("lit", str(sa * a), Fraction(sa * a)), int_lit(n))
    left = gen_tree(rng, depth - 1, max_digits, max_exp, ops, zero_bias)
    if op == "^":
        right = gen_exponent(rng, depth - 1)
        if right[0] == "lit" and abs(right[2]) >= 100:
            left = ("lit",) + rng.choice([("2", Fraction(2)), ("3", Fraction(3)), ("-2", Fraction(-2)), ("1.5", Fraction(3, 2)), ("0.5", Fraction(1, 2)), ("10", Fraction(10)), ("-1", Fraction(-1)), ("7", Fraction(7))])
    elif rng.random() < zero_bias and op == "/":
        # a zero sub-result under '/'
        a = gen_literal(rng, 4, 0, allow_pct=False)
        right = ("bin", "-", a, a)
    else:
        right = gen_tree(rng, depth - 1, max_digits, max_exp, ops, zero_bias)
    return ("bin", op, left, right)

def gen_cancel(rng):
    """Small trees in which one WIDE term (a literal of 20-130 digits, or a power such as 3^170) occurs twice, once above and once
    below the line, or once on each side of a sum: x / w * w, (w / b) * (c / w), (a / w) / (c / w), a / w + c / w, w * c / w ... with
    every sign combination. Cross-cancelling shortcuts in multiplication and division (seed C01-g: the sign taken from the wrong
    factor when a 257+ bit term cancels) only see such inputs when a whole operand is REPEATED; independent literals never are."""
    r = rng.random()
    if r < 0.55:
        nd = rng.choice([20, 39, 40, 77, 78, 79, 80, 100, 130]) + rng.randint(0, 3)
        n = rng.randint(10 ** (nd - 1), 10 ** nd - 1)
        w = lambda sg: ("lit", ("-" if sg < 0 else "") + str(n), Fraction(sg * n))
    elif r < 0.85:
        b, e = rng.choice([(3, rng.randint(150, 200)), (2, rng.randint(250, 300)), (7, rng.randint(90, 120)), (10, rng.randint(70, 100)), (3, rng.randint(20, 60))])
        w = lambda sg, b=b, e=e: ("bin", "^", int_lit(sg * b), int_lit(e | 1))
    else:
        from . import boundary as B
        n = max(2, B.integers(rng))
        w = lambda sg: ("lit", str(sg * n), Fraction(sg * n))
    def small():
        v = rng.choice([1, 2, 3, 7, rng.randint(1, 999), rng.randint(1, 10 ** 12)]) * rng.choice([1, 1, -1])
        return int_lit(v)
    sg = lambda: rng.choice([1, 1, -1])
    a, b, c = small(), small(), small()
    shapes = [
        lambda: ("bin", "*", ("bin", "/", w(sg()), b), ("bin", "/", c, w(sg()))),      # (w / b) * (c / w)
        lambda: ("bin", "*", ("bin", "/", a, w(sg())), ("bin", "/", w(sg()), c)),      # (a / w) * (w / c)
        lambda: ("bin", "*", ("bin", "/", a, w(sg())), w(sg())),                       # a / w * w
        lambda: ("bin", "*", w(sg()), ("bin", "/", c, w(sg()))),                       # w * (c / w)
        lambda: ("bin", "/", ("bin", "/", w(sg()), b), ("bin", "/", w(sg()), c)),      # (w / b) / (w / c)
        lambda: ("bin", "/", ("bin", "/", a, w(sg())), ("bin", "/", c, w(sg()))),      # (a / w) / (c / w)
        lambda: ("bin", "/", ("bin", "*", w(sg()), c), w(sg())),                       # w * c / w
        lambda: ("bin", "/", w(sg()), ("bin", "*", w(sg()), c)),                       # w / (w * c)
        lambda: ("bin", rng.choice("+-"), ("bin", "/", a, w(sg())), ("bin", "/", c, w(sg()))),   # a / w +- c / w
        lambda: ("bin", rng.choice("+-"), ("bin", "/", w(sg()), b), ("bin", "/", w(sg()), b)),   # w / b +- w / b
        lambda: ("bin", rng.choice("+-*/"), w(sg()), w(sg())),                         # w op w
        lambda: ("bin", "*", ("bin", "/", w(sg()), w(sg())), ("bin", "/", a, b)),      # (w / w) * (a / b)
    ]
    return rng.choice(shapes)()

def leaves_of(t, out=None):
    out = [] if out is None else out
    if t[0] == "lit":
        out.append(t)
    elif t[0] == "bin":
        leaves_of(t[2], out)
        leaves_of(t[3], out)
    elif t[0] == "call":
        for a in t[2]:
            leaves_of(a, out)
    return out

def reuse_literal(rng, t):
    """The tree combined once more with one of its own literals - the same text again, or the same text as a percentage (or
    without its percent sign): anything that remembers literals by their text meets its own past here (seed C01-f)."""
    ls = sorted(leaves_of(t), key=lambda l: -len(l[1]))
    if not ls:
        return t
    l = ls[0] if rng.random() < 0.7 else rng.choice(ls)
    text, v = l[1], l[2]
    r = rng.random()
    if r < 0.5:
        if text.endswith("%"):
            text, v = text[:-1], v * 100
        else:
            text, v = text + "%", v / 100
    op = rng.choice("+-*/")
    if op == "/" and v == 0:
        op = "-"
    leaf = ("lit", text, v)
    return ("bin", op, t, leaf) if rng.random() < 0.5 else ("bin", op if op != "/" or ev_safe(t) else "+", leaf, t)

def ev_safe(t):
    try:
        return ev(t) != 0
    except Exception:
        return False

def gen_chain(rng, n, calls=0.0):
    """A long flat chain a0 op a1 op a2 ... (left to right within a precedence level, as the minimal spelling has it), with the
    occasional parenthesised pair: exercises whatever grows with the NUMBER of operands rather than with nesting depth."""
    def leaf():
        if calls and rng.random() < calls:
            # a built-in call as operand: round(7), floor(7 / 2), ceil(2.5) - hundreds of them in one flat expression
            k = rng.randint(1, 99)
            arg = rng.choice([int_lit(k), ("bin", "/", int_lit(k), int_lit(rng.randint(2, 9))), ("lit", "%d.5" % k, Fraction(2 * k + 1, 2))])
            return ("call", rng.choice(["round", "floor", "ceil"]), [arg])
        if rng.random() < 0.1:
            a, b = int_lit(rng.randint(1, 99)), int_lit(rng.randint(1, 99))
            return ("bin", rng.choice("+-*"), a, b)
        v = rng.choice([rng.randint(1, 9), rng.randint(1, 999), -rng.randint(1, 9)])
        return int_lit(v) if rng.random() < 0.8 else gen_literal(rng, 4, 2, allow_pct=False, boundary=0)
    ops = rng.choice(["+-", "*/", "+-*/", "+-*/", "+"])
    # build with correct precedence: a sum of products
    def product():
        t = leaf()
        while rng.random() < (0.5 if "*" in ops and "+" in ops else (0.0 if "*" not in ops else 1.0)) and budget[0] > 0:
            budget[0] -= 1
            t = ("bin", rng.choice([o for o in ops if o in "*/"]), t, leaf())
        return t
    budget = [n]
    if "+" not in ops and "-" not in ops:
        t = leaf()
        for _ in range(n):
            t = ("bin", rng.choice(ops), t, leaf())
        return t
    t = product()
    while budget[0] > 0:
        budget[0] -= 1
        t = ("bin", rng.choice([o for o in ops if o in "+-"]), t, product())
    return t

def gen_exponent(rng, depth):
    r = rng.random()
    if r < 0.01:
        # large exponents around byte / word boundaries of the exponent itself (2^256, 3^-512, 1.5^1000): square-and-multiply
        # rewrites of the power loop go wrong at exactly these (seed C01-d); the size guard of ev() skips what gets too big
        return int_lit(rng.choice([-1, 1, 1]) * rng.choice([100, 127, 128, 129, 255, 256, 257, 300, 511, 512, 513, 768, 1000, 1023, 1024, 1025]))
    if r < 0.06:
        return int_lit(rng.choice([-1, 1]) * rng.randint(9, 64))      # two-digit powers (the size guard of ev() skips what gets too big)
    if r < 0.7 or depth <= 0:
        return int_lit(rng.randint(-8, 8))
    # integer-valued subtree
    a, b = rng.randint(-6, 6), rng.randint(-6, 6)
    op = rng.choice("+-*")
    t = ("bin", op, int_lit(a), int_lit(b))
    v = ev(t)
    if abs(v) > 8:
        return int_lit(rng.randint(-8, 8))
    return t
