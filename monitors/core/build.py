"""Building the harness (and with it /repo's current working tree) offline."""
import fcntl, os, subprocess, sys, time

VERIF = os.path.dirname(os.path.dirname(os.path.dirname(os.path.abspath(__file__))))
HARNESS = os.path.join(VERIF, "harness")
TARGET = os.path.join(VERIF, ".target")
REPO = os.environ.get("VERIF_REPO") or "/repo"   # the registered checks never set VERIF_REPO; tools/seed_par.sh does (scratch worktrees)
ALT = os.path.realpath(REPO) != "/repo"
if ALT:
    import hashlib, shutil
    _tag = hashlib.sha1(os.path.realpath(REPO).encode()).hexdigest()[:10]
    _alt_h = os.path.join(VERIF, "work", "alt", _tag, "harness")
    if not os.path.isdir(_alt_h):
        os.makedirs(os.path.dirname(_alt_h), exist_ok=True)
        shutil.copytree(HARNESS, _alt_h, ignore=shutil.ignore_patterns("target"))
    for _root, _d, _files in os.walk(HARNESS):      # refresh sources, substituting the repository path
        for _f in _files:
            _src = os.path.join(_root, _f); _dst = os.path.join(_alt_h, os.path.relpath(_src, HARNESS))
            os.makedirs(os.path.dirname(_dst), exist_ok=True)
            _t = open(_src, "rb").read().replace(b'"/repo"', ('"%s"' % os.path.realpath(REPO)).encode()).replace(b'"/repo/', ('"%s/' % os.path.realpath(REPO)).encode())
            if not os.path.exists(_dst) or open(_dst, "rb").read() != _t:
                open(_dst, "wb").write(_t)
    HARNESS = _alt_h
    MAIN = "alt-" + _tag
else:
    MAIN = "main"

class BuildError(Exception):
    pass

def _env(extra_rustflags=""):
    env = dict(os.environ)
    env["CARGO_NET_OFFLINE"] = "true"
    env["RUSTFLAGS"] = ("--cfg anything_verif " + extra_rustflags).strip()
    env.pop("RUSTC_WRAPPER", None)
    return env

def _run_locked(name, cmd, env, cwd):
    os.makedirs(TARGET, exist_ok=True)
    lock = open(os.path.join(TARGET, name + ".lock"), "w")
    fcntl.flock(lock, fcntl.LOCK_EX)
    try:
        t0 = time.time()
        p = subprocess.run(cmd, cwd=cwd, env=env, stdout=subprocess.PIPE, stderr=subprocess.STDOUT, text=True)
        if p.returncode != 0:
            sys.stderr.write(p.stdout[-6000:])
            raise BuildError("build failed: " + " ".join(cmd))
        return time.time() - t0
    finally:
        fcntl.flock(lock, fcntl.LOCK_UN)
        lock.close()

def build(kind="dbg"):
    """Build the harness against /repo's working tree. Returns dict of binary paths.
    kind: dbg (debug assertions + overflow checks), rel (release), asan (nightly + AddressSanitizer)."""
    if kind == "dbg":
        tdir = os.path.join(TARGET, MAIN)
        _run_locked(MAIN, ["cargo", "build", "--offline", "--bins"], dict(_env(), CARGO_TARGET_DIR=tdir), HARNESS)
        out = os.path.join(tdir, "debug")
    elif kind == "rel":
        tdir = os.path.join(TARGET, MAIN)
        _run_locked(MAIN, ["cargo", "build", "--offline", "--bins", "--release"], dict(_env(), CARGO_TARGET_DIR=tdir), HARNESS)
        out = os.path.join(tdir, "release")
    elif kind == "asan":
        tdir = os.path.join(TARGET, "asan" if not ALT else MAIN + "-asan")
        env = dict(_env("-Zsanitizer=address -Cforce-frame-pointers=yes"), CARGO_TARGET_DIR=tdir)
        _run_locked("asan", ["cargo", "+nightly", "build", "--offline", "--bins", "--target", "x86_64-unknown-linux-gnu"], env, HARNESS)
        out = os.path.join(tdir, "x86_64-unknown-linux-gnu", "debug")
    else:
        raise ValueError(kind)
    return {"vdriver": os.path.join(out, "vdriver"), "any": os.path.join(out, "any"), "dir": out}

if __name__ == "__main__":
    for k in sys.argv[1:] or ["dbg", "rel"]:
        t0 = time.time()
        print(k, build(k), "%.1fs" % (time.time() - t0))
