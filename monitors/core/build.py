"""Building the harness (and with it /repo's current working tree) offline."""
import fcntl, os, subprocess, sys, time

VERIF = os.path.dirname(os.path.dirname(os.path.dirname(os.path.abspath(__file__))))
HARNESS = os.path.join(VERIF, "harness")
TARGET = os.path.join(VERIF, ".target")
REPO = "/repo"

class BuildError(Exception):
    pass

def _env(extra_rustflags=""):
    env = dict(os.environ)
    env["CARGO_NET_OFFLINE"] = "true"
    env["RUSTFLAGS"] = ("--cfg anything_verif " + extra_rustflags).strip()
    env.pop("RUSTC_WRAPPER", None)
    return env

def _run_locked(name, cmd, env, cwd):
    os.makedirs(TARGET, exist_ok=True)
    lock = open(os.path.join(TARGET, name + ".lock"), "w")
    fcntl.flock(lock, fcntl.LOCK_EX)
    try:
        t0 = time.time()
        p = subprocess.run(cmd, cwd=cwd, env=env, stdout=subprocess.PIPE, stderr=subprocess.STDOUT, text=True)
        if p.returncode != 0:
            sys.stderr.write(p.stdout[-6000:])
            raise BuildError("build failed: " + " ".join(cmd))
        return time.time() - t0
    finally:
        fcntl.flock(lock, fcntl.LOCK_UN)
        lock.close()

def build(kind="dbg"):
    """Build the harness against /repo's working tree. Returns dict of binary paths.
    kind: dbg (debug assertions + overflow checks), rel (release), asan (nightly + AddressSanitizer)."""
    if kind == "dbg":
        tdir = os.path.join(TARGET, "main")
        _run_locked("main", ["cargo", "build", "--offline", "--bins"], dict(_env(), CARGO_TARGET_DIR=tdir), HARNESS)
        out = os.path.join(tdir, "debug")
    elif kind == "rel":
        tdir = os.path.join(TARGET, "main")
        _run_locked("main", ["cargo", "build", "--offline", "--bins", "--release"], dict(_env(), CARGO_TARGET_DIR=tdir), HARNESS)
        out = os.path.join(tdir, "release")
    elif kind == "asan":
        tdir = os.path.join(TARGET, "asan")
        env = dict(_env("-Zsanitizer=address -Cforce-frame-pointers=yes"), CARGO_TARGET_DIR=tdir)
        _run_locked("asan", ["cargo", "+nightly", "build", "--offline", "--bins", "--target", "x86_64-unknown-linux-gnu"], env, HARNESS)
        out = os.path.join(tdir, "x86_64-unknown-linux-gnu", "debug")
    else:
        raise ValueError(kind)
    return {"vdriver": os.path.join(out, "vdriver"), "any": os.path.join(out, "any"), "dir": out}

if __name__ == "__main__":
    for k in sys.argv[1:] or ["dbg", "rel"]:
        t0 = time.time()
        print(k, build(k), "%.1fs" % (time.time() - t0))
