"""Frozen reference table of units and prefixes.

Nothing here is read from /repo at run time. Values come from the SI brochure (9th ed.),
the 1959 international yard-and-pound agreement, NIST Handbook 44 / SP 811 (US customary)
and the UK Weights and Measures Act 1985 (imperial). The tool's own pseudo-units
(v, a, sp, gforce, c, Julian year and its multiples) are taken from its documentation.

Every unit has
  key       how the unit shows up in a serialised Compound ("Meter" or "D:<id hex>"); the ids are the
            ones shipped at the pinned commit (C17: "stable identifier")
  dims      exponents over (kg, m, s, A, K, mol, cd, B)
  readings  every defensible exact scale to SI base units (first = the reading the pinned build uses,
            which is what SI normalisation of *results* uses), or
  interval  (lo, hi) when no single exact standard value exists
  pinned    only for units whose pinned scale is NOT a valid reading (recorded C05 findings): the scale
            the pinned build uses, so that arithmetic laws can still be checked on them
  names     the documented spellings (tools/gen/data.toml at the pinned commit)
"""
from fractions import Fraction as F

DIMS = ("kg", "m", "s", "A", "K", "mol", "cd", "B")

def D(**kw):
    return tuple(kw.get(d, 0) for d in DIMS)

def dec(s):
    return F(s)

GAL_US = dec("0.003785411784")           # 231 in^3
GAL_IMP = dec("0.00454609")
IN = dec("0.0254")
FT = dec("0.3048")
LB = dec("0.45359237")
NMI = F(1852)
G0 = dec("9.80665")
YEAR = F(31557600)

U = {}

def unit(name, key, dims, names, readings=None, interval=None, pinned=None, offset=False):
    U[name] = {"name": name, "key": key, "dims": dims, "names": names,
               "readings": readings or [], "interval": interval, "pinned": pinned, "offset": offset}

# ---- base units -------------------------------------------------------------------------------
unit("Second", "Second", D(s=1), ["s", "sec", "second", "seconds"], [F(1)])
unit("Meter", "Meter", D(m=1), ["m", "metre", "meter", "meters"], [F(1)])
# the gram is spelled with the kilogram as base: `g` is KiloGram with prefix -3
unit("Gram", "KiloGram", D(kg=1), ["g", "gram"], [F(1, 1000)])
unit("Ampere", "Ampere", D(A=1), ["A", "ampere", "amperes"], [F(1)])
unit("Kelvin", "Kelvin", D(K=1), ["K", "kelvin", "kelvins"], [F(1)])
unit("Mole", "Mole", D(mol=1), ["mol", "mols", "mole", "moles"], [F(1)])
unit("Candela", "Candela", D(cd=1), ["cd", "candela", "candelas"], [F(1)])
unit("Byte", "Byte", D(B=1), ["B", "byte"], [F(1)])

# ---- time -------------------------------------------------------------------------------------
unit("Minute", "D:3cea0000", D(s=1), ["minute", "minutes", "min", "mins"], [F(60)])
unit("Hour", "D:3cea0001", D(s=1), ["h", "hr", "hour", "hours"], [F(3600)])
unit("Day", "D:3cea0003", D(s=1), ["dy", "day", "days"], [F(86400)])
unit("Week", "D:3cea0004", D(s=1), ["wk", "week", "weeks"], [F(604800)])
unit("Month", "D:3cea0005", D(s=1), ["mth", "mths", "month", "months"], [YEAR / 12, F(30 * 86400), F(2629746)])
unit("Year", "D:3cea1000", D(s=1), ["y", "yr", "yrs", "year", "years"], [YEAR, F(365 * 86400), F(31556952), dec("31556925.216")])
unit("Decade", "D:3cea2000", D(s=1), ["decade", "decades"], [YEAR * 10, F(3650 * 86400), F(315569520)])
unit("Century", "D:3cea3000", D(s=1), ["century", "centuries"], [YEAR * 100, F(36500 * 86400), F(3155695200)])
unit("Millenium", "D:3cea4000", D(s=1), ["M", "millenium", "milleniums", "millenia"], [YEAR * 1000, F(365000 * 86400), F(31556952000)])

# ---- mass -------------------------------------------------------------------------------------
TONS = [F(1000), LB * 2240, LB * 2000]
unit("Tonne", "D:7b15d4d8", D(kg=1), ["ton", "tons", "tonne", "tonnes"], TONS)
unit("Dalton", "D:95583f60", D(kg=1), ["Da", "dalton", "daltons"],
     interval=(dec("1.6605390666e-27") * (1 - F(1, 10**6)), dec("1.6605390666e-27") * (1 + F(1, 10**6))),
     pinned=F(332107813321, 200000000000))
unit("Grain", "D:f4321939", D(kg=1), ["gr", "grain", "grains"], [dec("0.00006479891")])
unit("Drachm", "D:a3592b8c", D(kg=1), ["dr", "drachm", "drachms"], [LB / 256, dec("0.00006479891") * 60])
unit("Ounce", "D:7c3b47da", D(kg=1), ["oz", "ounce", "ounces"], [LB / 16, dec("0.0311034768")])
unit("Pound", "D:e0482a36", D(kg=1), ["lb", "pound", "pounds"], [LB, dec("0.3732417216")])
unit("Stone", "D:c827fd0d", D(kg=1), ["st", "stone", "stones"], [LB * 14])
unit("Quarter", "D:20f6787b", D(kg=1), ["qr", "qtr", "quarter", "quarters"], [LB * 28, LB * 25])
unit("Hundredweight", "D:f97a5980", D(kg=1), ["cwt", "hundredweight", "hundredweights"], [LB * 112, LB * 100])
unit("ImperialTon", "D:ccbb6466", D(kg=1), ["t"], [LB * 2240, F(1000), LB * 2000])
SLUG = LB * G0 / FT
unit("Slug", "D:28eaf41b", D(kg=1), ["slug", "slugs"], interval=(SLUG * (1 - F(1, 10**9)), SLUG * (1 + F(1, 10**9))),
     pinned=None)

# ---- volume -----------------------------------------------------------------------------------
unit("Litre", "D:1c108ba2", D(m=3), ["l", "L", "litre", "litres"], [F(1, 1000)])
unit("CubicCentimetre", "D:b36964a0", D(m=3), ["cc"], [F(1, 10**6)])
unit("Gallon", "D:1c108ba3", D(m=3), ["gal", "gals", "gallon", "gallons"], [GAL_US, GAL_IMP, dec("0.00440488377086")])
unit("Pint", "D:1c108ba4", D(m=3), ["pint", "pints"], [GAL_US / 8, GAL_IMP / 8, dec("0.0005506104713575")],
     pinned=F(473176473, 250000000000))
unit("Quart", "D:1c108ba5", D(m=3), ["quart", "quarts"], [GAL_US / 4, GAL_IMP / 4, dec("0.001101220942715")])
unit("Cup", "D:1c108ba6", D(m=3), ["cup", "cups"], [GAL_US / 16, dec("0.00024"), dec("0.00025"), GAL_IMP / 16])
unit("Gill", "D:1c108ba7", D(m=3), ["gill", "gills"], [GAL_US / 32, GAL_IMP / 32])
unit("FuildOunce", "D:1c108ba8", D(m=3), ["floz", "flozs"], [GAL_US / 128, GAL_IMP / 160, dec("0.00003")])
unit("TableSpoon", "D:1c108ba9", D(m=3), ["tbsp", "tbsps", "tablespoon", "tablespoons"],
     [GAL_US / 256, dec("0.000015"), GAL_IMP / 160 * F(5, 8), dec("0.00002")])
unit("TeaSpoon", "D:1c108baa", D(m=3), ["tsp", "tsps", "teaspoon", "teaspoons"],
     [GAL_US / 768, dec("0.000005"), GAL_IMP / 160 * F(5, 24)])

# ---- area -------------------------------------------------------------------------------------
unit("Hectare", "D:bf2e000f", D(m=2), ["ha", "hectare", "hectares"], [F(10000)])
unit("Perch", "D:f153d092", D(m=2), ["perch", "perches"], [(FT * F(33, 2)) ** 2])
unit("Rood", "D:20541ce3", D(m=2), ["rood", "roods"], [(FT * F(33, 2)) ** 2 * 40])
unit("Acre", "D:e44777d2", D(m=2), ["acre", "acres"], [(FT * F(33, 2)) ** 2 * 160])

# ---- mechanics / electricity ------------------------------------------------------------------
unit("Acceleration", "D:aab4f36c", D(m=1, s=-2), ["a", "acc", "acceleration"], [F(1)])
unit("Velocity", "D:47dd35dc", D(m=1, s=-1), ["v", "vel", "velocity"], [F(1)])
unit("Gforce", "D:b82b2151", D(m=1, s=-2), ["gforce", "g-force"], [G0])
unit("Newton", "D:150ab031", D(kg=1, m=1, s=-2), ["N", "newton", "newtons"], [F(1)])
unit("Pascal", "D:d575976d", D(kg=1, m=-1, s=-2), ["Pa", "pascal", "pascals"], [F(1)])
unit("Joule", "D:e0796773", D(kg=1, m=2, s=-2), ["J", "joule"], [F(1)])
unit("Btu", "D:cf847a94", D(kg=1, m=2, s=-2), ["btu"], interval=(F(1054), F(1060)), pinned=None)
unit("Electronvolt", "D:007adc81", D(kg=1, m=2, s=-2), ["eV", "electronvolt", "electronvolts"], [dec("1.602176634e-19")])
unit("Watt", "D:a977f890", D(kg=1, m=2, s=-3), ["W", "watt", "watts"], [F(1)])
unit("Coulomb", "D:f57d5095", D(s=1, A=1), ["C", "coulomb", "coulombs"], [F(1)])
unit("Volt", "D:27475ce0", D(kg=1, m=2, s=-3, A=-1), ["V", "volt", "volts"], [F(1)])
unit("Farad", "D:cea46875", D(kg=-1, m=-2, s=4, A=2), ["F", "farad", "farads"], [F(1)])
unit("Ohm", "D:4c6815d9", D(kg=1, m=2, s=-3, A=-2), ["Ω", "ohm", "ohms"], [F(1)])
unit("Siemens", "D:d87739a9", D(kg=-1, m=-2, s=3, A=2), ["S", "siemens"], [F(1)])
unit("Weber", "D:69ca6c0a", D(kg=1, m=2, s=-2, A=-1), ["Wb", "weber", "webers"], [F(1)])
unit("Tesla", "D:731514a7", D(kg=1, s=-2, A=-1), ["T", "tesla", "teslas"], [F(1)])
unit("Henry", "D:ef26a9d5", D(kg=1, m=2, s=-2, A=-2), ["H", "henry", "henrys", "henries"], [F(1)])
unit("Lumen", "D:359318c2", D(cd=1), ["lm", "lumen", "lumens"], [F(1)])
unit("Lux", "D:ad603e6d", D(cd=1, m=-2), ["lx", "lux"], [F(1)])
unit("Becquerel", "D:7c25d25c", D(s=-1), ["Bq", "becquerel", "becquerels"], [F(1)])
unit("Gray", "D:6008fcb5", D(m=2, s=-2), ["Gy", "gray", "grays"], [F(1)])
unit("Sievert", "D:cd0fdf3b", D(m=2, s=-2), ["Sv", "sievert", "sieverts"], [F(1)])
unit("Katal", "D:9645d02f", D(mol=1, s=-1), ["kat", "katal", "katals"], [F(1)])
unit("LightSpeed", "D:8e8393e6", D(m=1, s=-1), ["c"], [F(299792458)])
unit("Knot", "D:c8545958", D(m=1, s=-1), ["kt", "knot", "knots"], [NMI / 3600])

# ---- length -----------------------------------------------------------------------------------
unit("Au", "D:c790db55", D(m=1), ["au"], [F(149597870700)])
unit("Fathom", "D:50d53fb0", D(m=1), ["ftm", "fathom", "fathoms"], [NMI / 1000, FT * 6, FT * dec("6.08")])
unit("Cable", "D:d9192122", D(m=1), ["cable", "cables"], [NMI / 10, FT * 600, FT * 608, FT * 720])
unit("NauticalMile", "D:d767fd82", D(m=1), ["NM", "nmi"], [NMI])
unit("Link", "D:9618566f", D(m=1), ["link", "links"], [FT * 66 / 100])
unit("Rod", "D:7ad5cf6d", D(m=1), ["rd", "rod", "rods"], [FT * F(33, 2)])
unit("Thou", "D:d3c90010", D(m=1), ["th", "thou", "thous"], [IN / 1000])
unit("Barleycorn", "D:d3c90020", D(m=1), ["Bc", "barleycorn", "barleycorns"], [IN / 3])
unit("Inch", "D:d3c90000", D(m=1), ["in", "inch", "inches"], [IN])
unit("Hand", "D:d3c90030", D(m=1), ["hand", "hands"], [IN * 4])
unit("Feet", "D:d3c90001", D(m=1), ["ft", "feet", "feets"], [FT])
unit("Yard", "D:d3c90002", D(m=1), ["yd", "yard", "yards"], [FT * 3])
unit("Chain", "D:e8db8915", D(m=1), ["ch", "chain", "chains"], [FT * 66])
unit("Furlong", "D:d3c90040", D(m=1), ["fur", "furlong", "furlongs"], [FT * 660])
unit("Mile", "D:d3c90003", D(m=1), ["mi", "mile", "miles"], [FT * 5280])
unit("League", "D:d3c90004", D(m=1), ["lea", "league", "leagues"], [FT * 5280 * 3, NMI * 3])

# ---- temperature (offset scales; only C09 handles the offsets) ----------------------------------
unit("Celsius", "D:de39ff06", D(K=1), ["°C", "celsius"], [F(1)], offset=True)
unit("Fahrenheit", "D:3a824baa", D(K=1), ["°F", "fahrenheit"], [F(5, 9)], offset=True)

unit("SpecificImpulse", "D:445f9706", D(s=1), ["sp"], [F(1)])

# pinned scales for interval units (frozen; each lies inside its interval)
U["Btu"]["pinned"] = F(1055)
U["Slug"]["pinned"] = dec("14.59390294")

PREFIXES = {
    "Y": 24, "yotta": 24, "Z": 21, "zetta": 21, "E": 18, "exa": 18, "P": 15, "peta": 15,
    "T": 12, "tera": 12, "G": 9, "giga": 9, "M": 6, "mega": 6, "k": 3, "kilo": 3,
    "h": 2, "hecto": 2, "da": 1, "deca": 1, "d": -1, "deci": -1, "c": -2, "centi": -2,
    "m": -3, "milli": -3, "μ": -6, "micro": -6, "n": -9, "nano": -9, "p": -12, "pico": -12,
    "f": -15, "femto": -15, "a": -18, "atto": -18, "z": -21, "zepto": -21, "y": -24, "yocto": -24,
}

KEY2UNIT = {}
for _u in U.values():
    if _u["name"] != "Gram":
        KEY2UNIT[_u["key"]] = _u
# base KiloGram as it appears in results: scale 1 kg
KEY2UNIT["KiloGram"] = {"name": "KiloGram", "key": "KiloGram", "dims": D(kg=1), "names": ["kg"],
                        "readings": [F(1)], "interval": None, "pinned": None, "offset": False}

NAME2UNITS = {}
for _u in U.values():
    for _n in _u["names"]:
        NAME2UNITS.setdefault(_n, []).append(_u)

def scale_of(u):
    """The scale used to normalise results: the pinned build's reading."""
    if u["pinned"] is not None:
        return u["pinned"]
    return u["readings"][0]

def valid_scale(u, s):
    if u["interval"] is not None:
        lo, hi = u["interval"]
        return lo <= s <= hi
    return s in u["readings"]

WORD_CHARS = set("abcdefghijklmnopqrstuvwxyzABCDEFGHIJKLMNOPQRSTUVWXYZ0123456789°'")

def typeable(word):
    """Can the word be typed as one query word (the lexer's word class, and not the keyword `to`)?"""
    return bool(word) and all(c in WORD_CHARS for c in word) and word != "to" and not word[0].isdigit()

def add_dims(a, b, k=1):
    return tuple(x + k * y for x, y in zip(a, b))

ZERO_DIMS = tuple(0 for _ in DIMS)

_memo = {}

def readings(word):
    """All readings of `word` as a sequence of [prefix]name pieces (optionally '-'-separated):
    set of (scale, dims) where scale ranges over the valid point readings. Interval units yield
    ('interval', lo, hi, dims) entries. Memoised."""
    if word in _memo:
        return _memo[word]
    out = set()
    if word == "":
        out.add((F(1), ZERO_DIMS, ()))
    else:
        starts = [0]
        for name, units in NAME2UNITS.items():
            for px, pe in [("", 0)] + list(PREFIXES.items()):
                head = px + name
                if word.startswith(head):
                    rest = word[len(head):]
                    if rest.startswith("-"):
                        rest = rest[1:]
                    for (s2, d2, iv2) in readings(rest):
                        for u in units:
                            pf = F(10) ** pe
                            if u["interval"] is not None:
                                lo, hi = u["interval"]
                                out.add((s2 * pf, add_dims(d2, u["dims"]), iv2 + ((lo, hi),)))
                            else:
                                for r in u["readings"]:
                                    out.add((s2 * pf * r, add_dims(d2, u["dims"]), iv2))
    _memo[word] = out
    return out

def reading_matches(word, scale, dims):
    """Is (scale, dims) one of the valid readings of word?"""
    for (s, d, ivs) in readings(word):
        if d != dims:
            continue
        if not ivs:
            if s == scale:
                return True
        else:
            lo, hi = s, s
            for (a, b) in ivs:
                lo, hi = lo * a, hi * b
            if lo <= scale <= hi:
                return True
    return False

# ---------------------------------------------------------------------------------------------
# Diagnosis aid (not an oracle): where would a two-phase longest-match word lexer - first over
# {unit names that are not also prefix spellings} + {prefix spellings}, then, after a prefix, over all
# unit names - walk *past* the token it finally reports? Used only to key known findings about the
# generated lexer's fall-back behaviour on the sub-string that triggers it.
def _trie(words):
    t = {}
    for w in words:
        n = t
        for c in w:
            n = n.setdefault(c, {})
        n[""] = w
    return t

_T2 = _trie(list(NAME2UNITS) + ["-"])
_T1 = _trie([n for n in NAME2UNITS if n not in PREFIXES] + list(PREFIXES) + ["-"])

def _munch(trie, s, i):
    """(end of longest accepted token or None, deepest position reached on a trie path)"""
    n, j, last = trie, i, None
    while j < len(s) and s[j] in n:
        n = n[s[j]]
        j += 1
        if "" in n:
            last = j
    return last, j

def fallback_node(word):
    """First place where the maximal-munch walk overshoots the token it must fall back to:
    ('T1'|'T2', overshoot sub-string) or None."""
    i = 0
    guard = 0
    while i < len(word) and guard < 100:
        guard += 1
        last, deep = _munch(_T1, word, i)
        if last is None:
            return None
        if deep > last:
            return ("T1", word[i:deep])
        tok = word[i:last]
        i = last
        if tok == "-":
            continue
        if tok in PREFIXES and not (tok in NAME2UNITS and i == len(word)):
            # phase 2: a unit name must follow
            while i < len(word) and word[i] == "-":
                i += 1
            last, deep = _munch(_T2, word, i)
            if last is None:
                return None
            if deep > last:
                return ("T2", word[i:deep])
            i = last
    return None
