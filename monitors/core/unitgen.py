"""Vocabulary of unit words (as the tool itself reads them) and generators of unit expressions.

The vocabulary is built at the start of a run by asking the tool about every [prefix]name word of the
frozen reference; a word is used by C02-C04/C09/C13 only if the tool reads it as exactly the intended
(unit key, prefix). Whether that reading is a *valid* one is C05's business alone. Per unit key the scale
to SI base units is *measured* (`1 name to <base units>`); C05 judges those scales against the reference."""
from fractions import Fraction as F
from . import units_ref as R
from . import si

BASE_WORD = {"kg": "kg", "m": "m", "s": "s", "A": "A", "K": "K", "mol": "mol", "cd": "cd", "B": "B"}
SHORT_PREFIXES = ["Y", "Z", "E", "P", "T", "G", "M", "k", "h", "da", "d", "c", "m", "n", "p", "f", "a", "z", "y"]

def base_expr(dims):
    num = [("%s^%d" % (BASE_WORD[n], e) if e != 1 else BASE_WORD[n]) for n, e in zip(R.DIMS, dims) if e > 0]
    den = [("%s^%d" % (BASE_WORD[n], -e) if e != -1 else BASE_WORD[n]) for n, e in zip(R.DIMS, dims) if e < 0]
    if not num and not den:
        return None
    t = "*".join(num) if num else None
    if den:
        if t is None:
            # no numerator: spell with negative powers
            return "*".join("%s^%d" % (BASE_WORD[n], e) for n, e in zip(R.DIMS, dims) if e < 0)
        t += "/" + "*".join(den)
    return t

class Vocab:
    def __init__(self, driver, include_offset=False):
        self.entries = []          # usable [prefix]name words
        self.by_key = {}
        self.by_dims = {}
        self.scale = {}            # key -> measured scale (Fraction)
        self.rejected = 0
        self.misread = 0
        self.unmeasured = []
        cands = []
        for u in R.U.values():
            if u["offset"] and not include_offset:
                continue
            for name in u["names"]:
                if not R.typeable(name):
                    continue
                for px in [""] + SHORT_PREFIXES + (["kilo", "milli", "micro", "mega"] if len(name) > 3 else []):
                    w = px + name
                    if not R.typeable(w):
                        continue
                    pe = R.PREFIXES.get(px, 0)
                    bias = -3 if u["name"] == "Gram" else 0
                    cands.append((w, u, pe + bias, px))
        reps = driver.call_many([{"op": "query", "q": "1 " + w} for w, _, _, _ in cands], timeout=300)
        for (w, u, ptotal, px), rep in zip(cands, reps):
            items = rep.get("items") or []
            if len(items) != 1 or "ok" not in items[0]:
                self.rejected += 1
                continue
            parts = items[0]["ok"]["u"]
            if parts != [[u["key"], 1, ptotal]] or items[0]["ok"]["v"] != ["1", "1"]:
                self.misread += 1
                continue
            e = {"word": w, "unit": u["name"], "key": u["key"], "prefix": ptotal, "dims": u["dims"], "px": px,
                 "offset": u["offset"], "bare": px == ""}
            self.entries.append(e)
        # measured scales
        keys = {}
        for e in self.entries:
            if e["bare"] and e["key"] not in keys and not e["offset"]:
                keys[e["key"]] = e
        mreqs = []
        for key, e in keys.items():
            mreqs.append({"op": "query", "q": "1 %s to %s" % (e["word"], base_expr(e["dims"]))})
        mreps = driver.call_many(mreqs, timeout=300) if mreqs else []
        for (key, e), rep in zip(keys.items(), mreps):
            items = rep.get("items") or []
            ok = len(items) == 1 and "ok" in items[0]
            if ok:
                v = si.frac(items[0]["ok"]["v"])
                # undo the entry's own prefix (gram: -3)
                self.scale[key] = v / F(10) ** e["prefix"]
            else:
                self.unmeasured.append(e["word"])
        for k, u in R.KEY2UNIT.items():
            if k not in self.scale:
                self.scale[k] = R.scale_of(u)
        self.scale["KiloGram"] = self.scale.get("KiloGram", F(1))
        self.entries = [e for e in self.entries if e["key"] in self.scale]
        for e in self.entries:
            self.by_key.setdefault(e["key"], []).append(e)
            self.by_dims.setdefault(e["dims"], []).append(e)
        self.single_dim = {}       # base dim index -> entries with exactly that dimension^1
        for e in self.entries:
            nz = [i for i, x in enumerate(e["dims"]) if x]
            if len(nz) == 1 and e["dims"][nz[0]] == 1:
                self.single_dim.setdefault(nz[0], []).append(e)
        self.derived = [e for e in self.entries if sum(1 for x in e["dims"] if x) > 1 or any(abs(x) > 1 for x in e["dims"])]

    # ---- SI model ---------------------------------------------------------------------------------
    def normalise(self, value, parts, allow_offset_as_interval=False):
        v = F(value)
        dims = R.ZERO_DIMS
        for key, power, prefix in parts:
            u = R.KEY2UNIT.get(key)
            if u is None:
                raise si.UnknownKey(key)
            if u["offset"] and not allow_offset_as_interval:
                raise si.OffsetUnit(key)
            v *= (self.scale[key] * F(10) ** prefix) ** power
            dims = R.add_dims(dims, u["dims"], power)
        return v, dims

    def norm_item(self, it, **kw):
        v, parts = si.item_value(it)
        return self.normalise(v, parts, **kw)

    def factors_si(self, factors):
        v = F(1)
        dims = R.ZERO_DIMS
        for e, power in factors:
            v *= (self.scale[e["key"]] * F(10) ** e["prefix"]) ** power
            dims = R.add_dims(dims, e["dims"], power)
        return v, dims

    def factors_parts(self, factors):
        return sorted([e["key"], p, e["prefix"]] for e, p in factors)

    # ---- generators -------------------------------------------------------------------------------
    def pick(self, rng, pool=None, prefixed=None):
        pool = pool if pool is not None else self.entries
        if prefixed is None:
            prefixed = rng.random() < 0.4
        c = [e for e in pool if (not e["bare"]) == prefixed] or pool
        return rng.choice(c)

    def rand_factors(self, rng, nmax=3, pmax=3, pool=None):
        out, keys = [], set()
        for _ in range(rng.randint(1, nmax)):
            e = self.pick(rng, pool)
            if e["key"] in keys:
                continue
            keys.add(e["key"])
            p = rng.choice([1, 1, 1, 2, -1, -1, -2, 3, -3][: 3 + 2 * pmax])
            out.append((e, p))
        return out

    def factors_for_dims(self, rng, dims, avoid=()):
        """Some spelling of the given exponent vector: optionally one or two derived units whose base powers
        (partly) cancel, the remainder in single-dimension units. None if impossible (zero vector)."""
        dims = tuple(dims)
        out, keys = [], set(avoid)
        for _ in range(rng.choice([0, 1, 1, 2])):
            e = self.pick(rng, self.derived)
            if e["key"] in keys:
                continue
            p = rng.choice([1, -1, 1, 2, -2])
            keys.add(e["key"])
            out.append((e, p))
            dims = R.add_dims(dims, e["dims"], -p)
        for i, x in enumerate(dims):
            if x == 0:
                continue
            pool = [e for e in self.single_dim.get(i, []) if e["key"] not in keys]
            if not pool:
                return None
            e = self.pick(rng, pool)
            keys.add(e["key"])
            out.append((e, x))
        if not out:
            return None
        rng.shuffle(out)
        return out

def text(factors, rng=None):
    """Unit expression: numerator factors joined by `*` (with an rng: sometimes by a blank - juxtaposition multiplies), one `/`,
    denominator factors joined the same way (everything after the `/` is inverted); sometimes negative exponents instead of `/`."""
    def f(e, p):
        return e["word"] if p == 1 else "%s^%d" % (e["word"], p)
    def join(fs):
        j = "*"
        if rng is not None and len(fs) > 1 and rng.random() < 0.2:
            j = " "
        return j.join(fs)
    num = [(e, p) for e, p in factors if p > 0]
    den = [(e, p) for e, p in factors if p < 0]
    if not den:
        return join([f(e, p) for e, p in num])
    if not num or (rng is not None and rng.random() < 0.25):
        return join([f(e, p) for e, p in num + den])
    return join([f(e, p) for e, p in num]) + "/" + join([f(e, -p) for e, p in den])

def confusables(V):
    """Triples (a, b, ab) of vocabulary entries where the WORD of `ab` is the words of `a` and `b` glued together but means something
    else than their product (m s / ms, m N / mN, m in / min, c d / cd, T m / Tm ...): anything that identifies a unit text after
    dropping its blanks confuses the two (seeds C03-h, C04-h)."""
    by_word = {e["word"]: e for e in V.entries}
    short = [e for e in V.entries if len(e["word"]) <= 3]
    out = []
    for a in short:
        for b in short:
            ab = by_word.get(a["word"] + b["word"])
            if ab is None or a["key"] == b["key"]:
                continue
            out.append((a, b, ab))
    return out
