"""Ground truth about the shipped facts, decoded by the harness from /repo/db/*.bin.gz as generic CBOR
(not through anything's own types)."""
import re
from .driver import Driver
from . import build

WORD = re.compile(r"^[a-zA-Z0-9°']+$")

def gval(generic, key):
    for k, v in generic:
        if k == key:
            return v
    return None

def load(driver, roundtrip=False):
    rep = driver.call({"op": "shipped", "dir": build.REPO + "/db", "roundtrip": roundtrip}, timeout=600)
    if "constants" not in rep:
        raise RuntimeError("cannot decode shipped data: %r" % (rep,))
    facts = []
    for c in rep["constants"]:
        g = c["generic"]
        tokens = gval(g, "tokens") or []
        facts.append({"file": c["file"], "tokens": tokens, "description": gval(g, "description"), "source": gval(g, "source"),
                      "has_value": gval(g, "value") is not None, "has_unit": gval(g, "unit") is not None,
                      "roundtrip": c.get("roundtrip"), "typed": c.get("typed")})
    return facts, rep["sources"]

def typeable(tokens):
    """Can the fact's words be typed as one phrase of the query language?"""
    if not tokens:
        return False
    for t in tokens:
        if not WORD.match(t) or t == "to":
            return False
    if tokens[0][0].isdigit():
        return False
    # a token that lexes as <number><letters> would be split by the lexer but still read back as the same text
    return True
