"""Sanitizer-backed executions for the thorough tiers: AddressSanitizer build of vdriver, Miri on the Db-free workload."""
import json, os, re, subprocess, tempfile, concurrent.futures
from . import build

def classify(report):
    """A report counts against udoprog/anything only if a frame of the crate is in it; reports wholly inside
    dependencies are logged in the evidence (DESIGN.md §5)."""
    frames = re.findall(r"(anything::[A-Za-z0-9_:<>]+|/repo/src/[A-Za-z0-9_/.]+:[0-9]+)", report)
    return ("anything", frames[0]) if frames else ("dependency", None)

def asan_run(requests, timeout=3600):
    """Run requests through the ASan build. Returns (replies, reports) where reports is a list of sanitizer report texts."""
    b = build.build("asan")
    data = "".join(json.dumps(r, ensure_ascii=False) + "\n" for r in requests).encode("utf-8")
    env = dict(os.environ, ASAN_OPTIONS="detect_leaks=1:halt_on_error=1:abort_on_error=0:symbolize=1", RUST_BACKTRACE="0")
    r = subprocess.run([b["vdriver"]], input=data, env=env, stdout=subprocess.PIPE, stderr=subprocess.PIPE, timeout=timeout)
    replies = []
    # one reply per "\n"-terminated line, in request order. NOT str.splitlines(): that also splits at U+0085, U+2028, U+000B ...,
    # which hostile inputs contain and serde_json does not escape - replies would be torn apart and misattributed
    lines = r.stdout.decode("utf-8", "replace").split("\n")
    for l in lines:
        if not l:
            continue
        try:
            replies.append(json.loads(l))
        except Exception:
            replies.append({"harness_error": "unparsable reply line"})
    err = r.stderr.decode("utf-8", "replace")
    reports = []
    if "AddressSanitizer" in err or "LeakSanitizer" in err:
        reports = [x for x in re.split(r"(?==+\d+==ERROR)", err) if "Sanitizer" in x]
    return replies, reports, r.returncode

def miri_run(seeds, count, timeout=7200):
    """`cargo +nightly miri run --bin vmiri -- <seed> <count>` for each seed, in parallel. Returns list of dicts."""
    env = dict(os.environ, CARGO_NET_OFFLINE="true", RUSTFLAGS="--cfg anything_verif", CARGO_TARGET_DIR=os.path.join(build.TARGET, "miri"))
    def one(seed):
        try:
            r = subprocess.run(["cargo", "+nightly", "miri", "run", "--offline", "--bin", "vmiri", "--", str(seed), str(count)],
                               cwd=build.HARNESS, env=env, stdout=subprocess.PIPE, stderr=subprocess.PIPE, timeout=timeout)
        except subprocess.TimeoutExpired:
            return {"seed": seed, "status": "timeout"}
        out = r.stdout.decode("utf-8", "replace").strip().split("\n")
        summary = None
        for l in out:
            try:
                summary = json.loads(l)
            except Exception:
                pass
        err = r.stderr.decode("utf-8", "replace")
        ub = "Undefined Behavior" in err or "error: unsupported operation" in err
        return {"seed": seed, "status": "exit", "code": r.returncode, "summary": summary, "ub": ub, "stderr": err[-4000:] if (ub or r.returncode) else ""}
    # build once, then run in parallel
    first = one(seeds[0])
    rest = []
    if len(seeds) > 1:
        with concurrent.futures.ThreadPoolExecutor(max_workers=16) as ex:
            rest = list(ex.map(one, seeds[1:]))
    return [first] + rest
