"""Boundary dictionary for numbers: values at which fixed-width fast paths, float shortcuts and limb/chunk boundaries of
bignum code change behaviour. Purely a *workload* device (which inputs get executed); every oracle stays exact.

Motivation (seeded defects C01-c, C04-c, C07-c, C10-c, C17-c, C19-c): an unchecked add after a checked multiply fires
at exactly 2^64 / 2^128; a u128 product cast to i128 wraps from 2^127; -(i64::MIN) overflows; a limb check looks at
the wrong end of a base-2^32 digit vector; an f64 comparison cannot tell 1 + 1e-17 from 1."""
from fractions import Fraction

BITS = [7, 8, 15, 16, 24, 31, 32, 33, 52, 53, 62, 63, 64, 65, 95, 96, 127, 128, 129, 191, 192, 255, 256]
CLASSIC = [31, 32, 63, 64, 127, 128]
DECS = [9, 10, 15, 16, 17, 18, 19, 20, 21, 22, 38, 39, 40]

def integers(rng):
    """One boundary integer (non-negative)."""
    r = rng.random()
    if r < 0.3:
        # the classic widths, mostly the exact power or one off
        return max(0, 2 ** rng.choice(CLASSIC) + rng.choice([0, 0, 0, -1, 1, -1, 1, 2, -2, 3]))
    if r < 0.55:
        return max(0, 2 ** rng.choice(BITS) + rng.randint(-3, 3))
    if r < 0.7:
        return max(0, 10 ** rng.choice(DECS) + rng.randint(-2, 2))
    if r < 0.85:
        # an odd multiplier times a power of 2^32: all low limbs are zero
        return rng.choice([1, 3, 5, 7, 11, 1000003]) * 2 ** (32 * rng.randint(1, 6))
    # just below/above sqrt of a boundary: products of two of these cross 2^63 / 2^64 / 2^127 / 2^128
    k = rng.choice([63, 64, 127, 128])
    base = int(Fraction(2 ** k) ** Fraction(1, 2)) if k % 2 == 0 else int((2 ** k) ** 0.5)
    return max(1, base + rng.randint(-3, 3))

def literal(rng, allow_neg=True, allow_frac=True):
    """Literal text for a boundary value: the integer itself, the same digits with a decimal point moved in, with an
    exponent, with trailing digits appended, or 1 +- 10^-k."""
    r = rng.random()
    if r < 0.06 and allow_frac:
        # a word-sized numerator over the only power of ten that is word-sized itself: 19 decimals, numerator just below 2^63
        # (or 2^64), coprime to ten so that nothing cancels
        top = rng.choice([2 ** 63, 2 ** 63, 2 ** 64])
        n = rng.randint(top - top // 12, top - 1) if rng.random() < 0.7 else top - rng.randint(1, 9)
        while n % 2 == 0 or n % 5 == 0:
            n -= 1
        t = "0." + str(n).rjust(19, "0") if len(str(n)) <= 19 else str(n)[:-19] + "." + str(n)[-19:]
        return ("-" + t) if allow_neg and rng.random() < 0.3 else t
    if r < 0.16 and allow_frac:
        k = rng.randint(1, 40)
        if rng.random() < 0.5:
            t = "1." + "0" * (k - 1) + "1"
        else:
            t = "0." + "9" * k
    else:
        n = integers(rng)
        t = str(n)
        x = rng.random()
        if x < 0.15 and allow_frac and len(t) > 1:
            p = rng.randint(0, len(t) - 1)          # 0: all digits behind the point (0.9223372036854775807: numerator 2^63-1 over 10^19)
            t = (t[:p] or "0") + "." + t[p:]
        elif x < 0.25 and allow_frac:
            t = t + "e" + rng.choice(["", "+", "-"]) + str(rng.randint(0, 12))
        elif x < 0.35:
            t = t + "".join(rng.choice("0123456789") for _ in range(rng.randint(1, 14)))
        elif x < 0.42:
            t = "0" * rng.randint(1, 3) + t
    if allow_neg and rng.random() < 0.35:
        t = "-" + t
    return t

def terminating_literal(rng):
    """The exact decimal spelling of k / (2^a * 5^b): digit strings with a large power of two or five in them (1/8192 =
    0.0001220703125, f32 epsilon 1.1920928955078125e-7). A reader that cancels common factors by hand only meets these when the
    literal is generated from such a VALUE; a random digit string is a multiple of 5^13 once in a billion (seed C07-e)."""
    a, b = rng.choice([(rng.randint(0, 70), 0), (0, rng.randint(0, 40)), (rng.randint(0, 40), rng.randint(0, 30))])
    k = rng.choice([1, 1, 3, 7, rng.randint(1, 10 ** 6), rng.randint(1, 10 ** 20)])
    places = max(a, b)
    digits = str(k * 10 ** places // (2 ** a * 5 ** b)) if (k * 10 ** places) % (2 ** a * 5 ** b) == 0 else None
    if digits is None:
        return "1"
    digits = digits.rjust(places + 1, "0")
    t = digits[:-places] + "." + digits[-places:] if places else digits
    x = rng.random()
    if x < 0.3:
        # the same value with the point moved and an exponent to compensate
        sh = rng.randint(-12, 12)
        body = t.replace(".", "")
        pt = len(t.split(".")[0]) + sh
        if 0 < pt < len(body):
            t = body[:pt] + "." + body[pt:] + "e%d" % (-sh)
        elif pt >= len(body):
            t = body + "0" * (pt - len(body)) + "e%d" % (-sh)
        else:
            t = "0." + "0" * (-pt) + body + "e%d" % (-sh)
    if rng.random() < 0.3:
        t = "-" + t
    return t

def fraction_parts(rng):
    """(numerator, denominator) with a boundary numerator (often negative) over a small denominator, for monitors that
    spell `p / q`: reduced numerators of exactly +-2^63, +-2^64 ... survive only over odd denominators."""
    if rng.random() < 0.4:
        # a boundary DENOMINATOR (also after scaling by a power of ten, as round(x, n) does): somewhere in the top half of a
        # 64/128-bit word, with a numerator that leaves a remainder of at least one half
        k = rng.choice([63, 64, 127, 128])
        d = (2 ** (k - 1) + rng.randrange(2 ** (k - 1))) // 10 ** rng.randint(0, 6)
        if rng.random() < 0.3:
            d = 2 ** k - rng.randint(1, 3)
        d = max(2, d)
        q = rng.choice([0, 1, 7, rng.randrange(10 ** 6)])
        r = d // 2 + rng.randrange(max(1, d - d // 2))
        n = q * d + r
        return (-n if rng.random() < 0.5 else n), d
    n = integers(rng)
    if rng.random() < 0.5:
        n = -n
    d = rng.choice([1, 2, 3, 5, 7, 9, 10, 11, 13, 1000, 2 ** 32, 2 ** 64 + 1])
    return n, d

def word_fraction(rng):
    """(n, d): numerator and denominator both at the top of a machine word (n just below 2^63 or 2^127, d just below 2^64 or 2^128,
    or both a few bits lower): sums and products of two of these overflow double-width intermediates."""
    k = rng.choice([32, 64, 64, 64, 128])
    lo = rng.choice([0, 0, 1, 2])
    n = 2 ** (k - 1 - lo) - rng.randint(1, 2 ** (k // 2))
    d = 2 ** (k - lo) - rng.randint(1, 2 ** (k // 2))
    if rng.random() < 0.3:
        n, d = 2 ** (k - 1 - lo) - rng.randint(1, 5), 2 ** (k - lo) - rng.randint(1, 5)
    return max(1, n), max(2, d)

def big_pair(rng):
    """Two integers whose product straddles a fixed-width boundary."""
    k = rng.choice([63, 64, 127, 128])
    a = 2 ** rng.randint(k // 2 - 2, k // 2 + 2) + rng.randint(-3, 3)
    b = (2 ** k) // max(1, a) + rng.randint(-3, 3)
    if rng.random() < 0.4:
        a = 2 ** (k // 2 if k % 2 == 0 else (k + 1) // 2) - rng.randint(0, 3)
        b = 2 ** (k // 2 if k % 2 == 0 else (k + 1) // 2) - rng.randint(0, 3)
    return max(1, a), max(1, b)

def scaled_denominator(rng):
    """(n, d, j): a denominator d that lands in the top half of a 64- or 128-bit word only AFTER it has been multiplied by 10^j, with a
    numerator that leaves a remainder of at least one half: round(n / d, -j) scales the denominator to exactly there (seed C10-d)."""
    k = rng.choice([64, 128, 128])
    j = rng.randint(1, 12)
    top = 2 ** (k - 1) + rng.randrange(2 ** (k - 1))
    d = max(2, top // 10 ** j)
    q = rng.choice([0, 1, 7, rng.randrange(10 ** 6)])
    r = (d * 10 ** j) // 2 + rng.randrange(max(1, d * 10 ** j // 2))
    n = q * d * 10 ** j + r
    return (-n if rng.random() < 0.5 else n), d, j
