"""Coverage-guided executions for C11's thorough tier: `cargo +nightly fuzz` (libFuzzer + AddressSanitizer, fork mode)
running the in-process monitor harness/fuzz/fuzz_targets/c11.rs. The fuzzer only *finds* inputs; every artifact is
re-judged through vdriver by the ordinary C11 oracle, so a verdict never rests on libFuzzer's exit status."""
import glob, hashlib, os, re, shutil, subprocess, time
from . import build

def _env():
    env = dict(os.environ, CARGO_NET_OFFLINE="true", RUSTFLAGS="--cfg anything_verif",
               CARGO_TARGET_DIR=os.path.join(build.TARGET, "fuzz" if not build.ALT else build.MAIN + "-fuzz"))
    env.pop("RUSTC_WRAPPER", None)
    return env

def fuzz_dir():
    return os.path.join(build.HARNESS, "fuzz")

def run(target, seeds, dictionary, seconds, workdir, max_len=160, jobs=16):
    """Returns dict(status, executions, coverage, corpus, crashes=[bytes], timeouts=[bytes], log_tail).
    status: 'ok' | 'build-failed' | 'did-not-run' (both inconclusive for the caller)."""
    shutil.rmtree(workdir, ignore_errors=True)
    corpus = os.path.join(workdir, "corpus")
    arts = os.path.join(workdir, "artifacts")
    os.makedirs(corpus)
    os.makedirs(arts)
    for s in seeds:
        data = s.encode("utf-8", "replace")[:max_len]
        open(os.path.join(corpus, hashlib.sha1(data).hexdigest()), "wb").write(data)
    dict_path = os.path.join(workdir, "dict.txt")
    with open(dict_path, "w", encoding="utf-8") as f:
        for w in dictionary:
            b = w.encode("utf-8")
            f.write('"' + "".join(chr(c) if 32 <= c < 127 and c not in (34, 92) else "\\x%02x" % c for c in b) + '"\n')
    env = _env()
    b = subprocess.run(["cargo", "+nightly", "fuzz", "build", target], cwd=fuzz_dir(), env=env, stdout=subprocess.PIPE, stderr=subprocess.STDOUT, text=True)
    if b.returncode != 0:
        return {"status": "build-failed", "log_tail": b.stdout[-3000:]}
    log = os.path.join(workdir, "fuzz.log")
    t0 = time.time()
    with open(log, "wb") as lf:
        try:
            subprocess.run(["cargo", "+nightly", "fuzz", "run", target, corpus, "--",
                            "-fork=%d" % jobs, "-timeout=10", "-max_total_time=%d" % seconds, "-max_len=%d" % max_len, "-len_control=0",
                            "-dict=" + dict_path, "-ignore_crashes=1", "-ignore_timeouts=1", "-ignore_ooms=1", "-rss_limit_mb=4096",
                            "-artifact_prefix=" + arts + "/", "-print_final_stats=1"],
                           cwd=fuzz_dir(), env=env, stdout=lf, stderr=subprocess.STDOUT, timeout=seconds + 900)
        except subprocess.TimeoutExpired:
            pass
    text = open(log, "rb").read().decode("utf-8", "replace")
    execs = 0
    cov = 0
    for m in re.finditer(r"^#(\d+): cov: (\d+)", text, re.M):
        execs = max(execs, int(m.group(1)))
        cov = max(cov, int(m.group(2)))
    def read_all(prefix):
        out = []
        for p in sorted(glob.glob(os.path.join(arts, prefix + "*"))):
            out.append(open(p, "rb").read())
        return out
    res = {"status": "ok" if execs > 0 else "did-not-run", "executions": execs, "coverage": cov,
           "corpus": len(os.listdir(corpus)), "crashes": read_all("crash-"), "timeouts": read_all("timeout-"),
           "ooms": len(read_all("oom-")), "wall_s": round(time.time() - t0, 1), "log_tail": text[-3000:],
           "asan_reports": 0, "asan_in_crate": []}
    frames = set()
    for blk in re.split(r"(?==+\d+==ERROR: AddressSanitizer)", text)[1:]:
        if blk.startswith("=") and "deadly signal" not in blk[:200]:     # a panic aborts with a "deadly signal" banner: not a memory error
            res["asan_reports"] += 1
            head = blk.split("SUMMARY:")[0]
            frames.update(re.findall(r"#\d+ 0x[0-9a-f]+ in (anything::[A-Za-z0-9_:<>]+)", head)[:1])
    res["asan_in_crate"] = sorted(frames)
    return res
