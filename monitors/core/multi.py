"""Several expressions in ONE query string: `(E1) (E2) (E3)` is evaluated and reported expression by expression, and each
expression must give exactly what `(Ei)` gives as a query of its own - whether its neighbours succeeded or failed.

Workload device plus a differential oracle: the expected item is the tool's own reply to the single expression (which the calling
monitor judges against its exact oracle), so this stage only adds the claim "nothing carries over from one expression of a query to
the next" (scratch buffers, cached comparisons, argument stacks, error state: seeds C02-g, C10-g). Only expressions that parse and
yield exactly one item on their own are combined - a syntax error legitimately swallows the whole query."""
from .driver import DriverDied, DriverTimeout

SEPS = [" ", " ", " ", "", "  ", "\t"]

def norm(item):
    if "ok" in item:
        return ("ok", tuple(item["ok"]["v"]), tuple(tuple(x) for x in item["ok"]["u"]))
    if "err" in item:
        return ("err", item["err"].get("msg"))
    return ("?", repr(item))

# phrases the search library refuses or treats specially (dangling or leading upper-case AND / OR / NOT, only-excluding phrases): as an
# expression of its own each yields a located lookup error or a miss - and must leave nothing behind for its neighbours
REFUSED = ["earth OR", "NOT pi", "OR", "NOT", "mercury NOT", "OR mercury", "earth AND AND moon", "NOT finland", "NOT NOT a", "mass NOT NOT",
           "earth radius OR", "AND earth", "zzqqxx", "population zzzz"]

def stage(acc, d, texts, rng, n, pid, build_kind, kmax=4, descs=False):
    """texts: expression texts (without the outer parentheses). Returns the number of combined queries judged."""
    texts = [t for t in dict.fromkeys(texts) if t and len(t) < 400]
    if len(texts) < 2 or n <= 0:
        return 0
    # which of them stand alone: one item, no syntax error
    reqs = [{"op": "query", "q": "(" + t + ")", "describe": bool(descs)} for t in texts]
    alone = {}
    try:
        reps = []
        for i in range(0, len(reqs), 2000):
            reps += d.call_many(reqs[i:i + 2000], timeout=300)
    except (DriverDied, DriverTimeout) as ex:
        acc.inconc("multi-expression stage, single expressions: %r" % (ex,))
        d.restart()
        return 0
    for t, r in zip(texts, reps):
        items = r.get("items") or []
        if "panic" in r or len(items) != 1:
            continue
        it = norm(items[0])
        if it[0] == "?" or (it[0] == "err" and it[1] == "syntax error"):
            continue
        alone[t] = (it, [(x.get("phrase"), x.get("description")) for x in r.get("descs", [])])
    pool = list(alone)
    fails = [t for t in pool if alone[t][0][0] == "err"]
    if len(pool) < 2:
        return 0
    combos = []
    for _ in range(n):
        k = rng.randint(2, kmax)
        pick = [rng.choice(pool) for _ in range(k)]
        if fails and rng.random() < 0.5:
            # a failing expression in front of (or between) expressions that succeed
            pick[rng.randrange(k - 1)] = rng.choice(fails)
        if rng.random() < 0.35:
            # the SAME expression again later in the query (A, B, A): whatever a query remembers about an expression or a phrase
            # (a memo entry made before the lookup failed, seed C11-h) is asked for again
            i = rng.randrange(k - 1)
            pick[rng.randrange(i + 1, k)] = pick[i]
        sep = rng.choice(SEPS)
        combos.append((pick, sep.join("(" + t + ")" for t in pick)))
    # a few LONG queries: hundreds to a couple of thousand expressions (mostly failing ones in front, or a long run of blanks in front),
    # so that the judged expressions sit thousands of bytes into the query and behind everything a query can accumulate while it runs
    # (a depth counter that failing expressions never give back, seed C01-i; a length guard applied to the END offset of a phrase
    # instead of its length, seed C16-i)
    short = [t for t in pool if len(t) < 40]
    if short and n >= 50:
        for k in (300, 700, 1500):
            front = [rng.choice(fails) if fails and rng.random() < 0.8 else rng.choice(short) for _ in range(k)] if rng.random() < 0.7 else []
            tail = [rng.choice(pool) for _ in range(4)]
            pick = front + tail
            q = " ".join("(" + t + ")" for t in pick)
            if not front:
                q = " " * rng.choice([4090, 4096, 4100, 9000, 70000]) + q
            combos.append((pick, q))
    try:
        reps = []
        for i in range(0, len(combos), 2000):
            reps += d.call_many([{"op": "query", "q": q, "describe": bool(descs)} for _, q in combos[i:i + 2000]], timeout=300)
    except (DriverDied, DriverTimeout) as ex:
        acc.inconc("multi-expression stage: %r" % (ex,))
        d.restart()
        return 0
    judged = 0
    for (pick, q), r in zip(combos, reps):
        judged += 1
        acc.evaluations += 1
        acc.count("multi_expression_queries")
        case = {"query": q, "build": build_kind, "expressions": pick, "expected": [list(alone[t][0]) for t in pick]}
        if "panic" in r:
            acc.violate("%s:multi:panic:%s" % (pid.lower(), r.get("panic_loc")), "%r panicked: %s" % (q, r["panic"]), dict(case, observed=r["panic"]))
            continue
        got = [norm(it) for it in (r.get("items") or [])]
        want = [alone[t][0] for t in pick]
        case["observed"] = [list(g) for g in got]
        if got != want:
            j = next((i for i in range(min(len(got), len(want))) if got[i] != want[i]), min(len(got), len(want)))
            before = "after-error" if any(w[0] == "err" for w in want[:j]) else "after-value"
            acc.violate("%s:multi:differs-%s" % (pid.lower(), before),
                        "expression %d of %r gave %s, as a query of its own it gives %s" % (j + 1, q, got[j] if j < len(got) else "nothing", want[j] if j < len(want) else "nothing"), case)
            continue
        if descs:
            wd = [x for t in pick for x in alone[t][1]]
            if [(x.get("phrase"), x.get("description")) for x in r.get("descs", [])] != wd:
                acc.violate("%s:multi:descriptions" % pid.lower(), "%r reported descriptions %s, its expressions alone report %s" % (q, r.get("descs"), wd), case)
                continue
        acc.nontriv(q)
        if judged <= 2:
            acc.sample({"query": q, "items": [list(g) for g in got]}, cap=1)
    return judged


def interleave_stage(acc, d, queries, rng, n, pid, build_kind):
    """Result iterators of two or three queries alive at once on one thread, created one after the other and stepped in turn
    (op `interleave`): every query must yield what it yields when it is evaluated on its own, from start to end."""
    queries = [q for q in dict.fromkeys(queries) if q and len(q) < 300]
    if len(queries) < 2 or n <= 0:
        return 0
    try:
        reps = d.call_many([{"op": "query", "q": q} for q in queries], timeout=300)
    except (DriverDied, DriverTimeout) as ex:
        acc.inconc("interleave stage, single queries: %r" % (ex,))
        d.restart()
        return 0
    alone = {}
    for q, r in zip(queries, reps):
        items = r.get("items")
        if "panic" in r or not items or any(norm(it) == ("err", "syntax error") for it in items):
            continue
        alone[q] = [norm(it) for it in items]
    pool = list(alone)
    multi_res = [q for q in pool if len(alone[q]) > 1]
    if len(pool) < 2:
        return 0
    groups = []
    for _ in range(n):
        k = rng.choice([2, 2, 3])
        g = [rng.choice(multi_res) if multi_res and rng.random() < 0.7 else rng.choice(pool) for _ in range(k)]
        groups.append(g)
    try:
        reps = d.call_many([{"op": "interleave", "qs": g} for g in groups], timeout=300)
    except (DriverDied, DriverTimeout) as ex:
        acc.inconc("interleave stage: %r" % (ex,))
        d.restart()
        return 0
    for g, r in zip(groups, reps):
        acc.evaluations += 1
        acc.count("interleaved_query_groups")
        case = {"queries": g, "build": build_kind, "expected": [[list(x) for x in alone[q]] for q in g]}
        if "results" not in r:
            acc.violate("%s:interleave:%s" % (pid.lower(), "panic" if "panic" in r else "no-results"), "queries %r stepped in turn: %s" % (g, r), dict(case, observed=r))
            continue
        got = [[norm(it) for it in res] for res in r["results"]]
        want = [alone[q] for q in g]
        if got != want:
            j = next(i for i in range(len(g)) if i >= len(got) or got[i] != want[i])
            acc.violate("%s:interleave:differs" % pid.lower(), "query %r yields %s while %r are being evaluated in turn with it, on its own it yields %s" % (
                g[j], got[j] if j < len(got) else None, [q for i, q in enumerate(g) if i != j], want[j]), dict(case, observed=[[list(x) for x in res] for res in got]))
        else:
            acc.nontriv("|".join(g))
    return len(groups)
