"""Talking to vdriver processes: one JSON request per line, one reply per line."""
import json, os, select, subprocess, time

class DriverDied(Exception):
    pass

class DriverTimeout(Exception):
    pass

class Driver:
    def __init__(self, binary, env=None, cwd=None, stderr=None):
        e = dict(os.environ)
        if env:
            e.update(env)
        self.binary = binary
        self.env = e
        self.cwd = cwd
        self.stderr = stderr if stderr is not None else subprocess.DEVNULL
        self.proc = None
        self.buf = b""
        self.start()

    def start(self):
        argv = list(self.binary) if isinstance(self.binary, (list, tuple)) else [self.binary]
        self.proc = subprocess.Popen(argv, stdin=subprocess.PIPE, stdout=subprocess.PIPE,
                                     stderr=self.stderr, env=self.env, cwd=self.cwd, bufsize=0)
        self.buf = b""

    def restart(self):
        self.close(kill=True)
        self.start()

    def _readline(self, timeout):
        deadline = None if timeout is None else time.time() + timeout
        fd = self.proc.stdout.fileno()
        while b"\n" not in self.buf:
            t = None if deadline is None else max(0.0, deadline - time.time())
            r, _, _ = select.select([fd], [], [], t)
            if not r:
                raise DriverTimeout()
            chunk = os.read(fd, 1 << 16)
            if not chunk:
                raise DriverDied("exit status %r" % (self.proc.poll(),))
            self.buf += chunk
        line, self.buf = self.buf.split(b"\n", 1)
        return line

    def call(self, req, timeout=120):
        data = (json.dumps(req, ensure_ascii=False) + "\n").encode("utf-8")
        try:
            self.proc.stdin.write(data)
            self.proc.stdin.flush()
        except (BrokenPipeError, OSError) as e:
            raise DriverDied(str(e))
        return json.loads(self._readline(timeout))

    def call_many(self, reqs, timeout=120, window=64):
        """Pipelined calls; replies in order."""
        out = []
        sent = 0
        n = len(reqs)
        while len(out) < n:
            while sent < n and sent - len(out) < window:
                data = (json.dumps(reqs[sent], ensure_ascii=False) + "\n").encode("utf-8")
                try:
                    self.proc.stdin.write(data)
                except (BrokenPipeError, OSError) as e:
                    raise DriverDied(str(e))
                sent += 1
            self.proc.stdin.flush()
            out.append(json.loads(self._readline(timeout)))
        return out

    def close(self, kill=False):
        if self.proc is None:
            return
        try:
            if kill:
                self.proc.kill()
            else:
                self.proc.stdin.close()
            self.proc.wait(timeout=10)
        except Exception:
            try:
                self.proc.kill()
                self.proc.wait(timeout=5)
            except Exception:
                pass
        self.proc = None

    def __enter__(self):
        return self

    def __exit__(self, *a):
        self.close()


def replay_env(case):
    """The environment a recorded case was observed under (shards that run with a trace-level logger installed)."""
    return {"RUST_LOG": "anything=trace"} if isinstance(case, dict) and case.get("trace_logging") else None
