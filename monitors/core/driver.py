"""Talking to vdriver processes: one JSON request per line, one reply per line."""
import json, os, select, subprocess, time

class DriverDied(Exception):
    pass

class DriverTimeout(Exception):
    pass

class Driver:
    def __init__(self, binary, env=None, cwd=None, stderr=None):
        e = dict(os.environ)
        if env:
            e.update(env)
        self.binary = binary
        self.env = e
        self.cwd = cwd
        self.stderr = stderr if stderr is not None else subprocess.DEVNULL
        self.proc = None
        self.buf = b""
        self.start()

    def start(self):
        argv = list(self.binary) if isinstance(self.binary, (list, tuple)) else [self.binary]
        self.proc = subprocess.Popen(argv, stdin=subprocess.PIPE, stdout=subprocess.PIPE,
                                     stderr=self.stderr, env=self.env, cwd=self.cwd, bufsize=0)
        self.buf = b""

    def restart(self):
        self.close(kill=True)
        self.start()

    def _readline(self, timeout):
        deadline = None if timeout is None else time.time() + timeout
        fd = self.proc.stdout.fileno()
        while b"\n" not in self.buf:
            t = None if deadline is None else max(0.0, deadline - time.time())
            r, _, _ = select.select([fd], [], [], t)
            if not r:
                raise DriverTimeout()
            chunk = os.read(fd, 1 << 16)
            if not chunk:
                raise DriverDied("exit status %r" % (self.proc.poll(),))
            self.buf += chunk
        line, self.buf = self.buf.split(b"\n", 1)
        return line

    def call(self, req, timeout=120):
        data = (json.dumps(req, ensure_ascii=False) + "\n").encode("utf-8")
        try:
            self.proc.stdin.write(data)
            self.proc.stdin.flush()
        except (BrokenPipeError, OSError) as e:
            raise DriverDied(str(e))
        return json.loads(self._readline(timeout))

    def call_many(self, reqs, timeout=120, window=64):
        """Pipelined calls; replies in order. Requests are written and replies read in one select() loop, so neither side can block
        the other: a request or a reply may be far larger than a pipe buffer (a 70 KB query, a reply with 1500 results)."""
        out = []
        n = len(reqs)
        sent = 0
        pending = b""
        rfd, wfd = self.proc.stdout.fileno(), self.proc.stdin.fileno()
        os.set_blocking(wfd, False)
        try:
            deadline = time.time() + timeout
            while len(out) < n:
                if not pending and sent < n and sent - len(out) < window:
                    pending = (json.dumps(reqs[sent], ensure_ascii=False) + "\n").encode("utf-8")
                    sent += 1
                while b"\n" in self.buf and len(out) < n:
                    line, self.buf = self.buf.split(b"\n", 1)
                    out.append(json.loads(line))
                    deadline = time.time() + timeout          # the timeout is per reply
                if len(out) >= n:
                    break
                if not pending and sent < n and sent - len(out) < window:
                    continue
                r, w, _ = select.select([rfd], [wfd] if pending else [], [], max(0.0, deadline - time.time()))
                if not r and not w:
                    raise DriverTimeout()
                if w:
                    try:
                        k = os.write(wfd, pending[:1 << 16])
                        pending = pending[k:]
                    except BlockingIOError:
                        pass
                    except (BrokenPipeError, OSError) as e:
                        raise DriverDied(str(e))
                if r:
                    chunk = os.read(rfd, 1 << 16)
                    if not chunk:
                        raise DriverDied("exit status %r" % (self.proc.poll(),))
                    self.buf += chunk
        finally:
            try:
                os.set_blocking(wfd, True)
            except OSError:
                pass
        return out

    def close(self, kill=False):
        if self.proc is None:
            return
        try:
            if kill:
                self.proc.kill()
            else:
                self.proc.stdin.close()
            self.proc.wait(timeout=10)
        except Exception:
            try:
                self.proc.kill()
                self.proc.wait(timeout=5)
            except Exception:
                pass
        self.proc = None

    def __enter__(self):
        return self

    def __exit__(self, *a):
        self.close()


def replay_env(case):
    """The environment a recorded case was observed under (shards that run with a trace-level logger installed)."""
    return {"RUST_LOG": "anything=trace"} if isinstance(case, dict) and case.get("trace_logging") else None
