"""SI normaliser: (value, [[unit-key, power, prefix], ...]) -> (value in base SI units, exponent vector).

Uses the frozen reference table only. Offset scales are refused (OffsetUnit) - only C09 handles them."""
from fractions import Fraction as F
from . import units_ref as R

class OffsetUnit(Exception):
    pass

class UnknownKey(Exception):
    pass

def normalise(value, parts, allow_offset_as_interval=False):
    v = F(value)
    dims = R.ZERO_DIMS
    for key, power, prefix in parts:
        u = R.KEY2UNIT.get(key)
        if u is None:
            raise UnknownKey(key)
        if u["offset"] and not allow_offset_as_interval:
            raise OffsetUnit(key)
        s = R.scale_of(u) * F(10) ** prefix
        v *= s ** power
        dims = R.add_dims(dims, u["dims"], power)
    return v, dims

def frac(v):
    """[numer-string, denom-string] -> Fraction"""
    return F(int(v[0]), int(v[1]))

def item_value(it):
    """reply item {'ok': {'v':[n,d],'u':[...]}} -> (Fraction, parts)"""
    o = it["ok"]
    return frac(o["v"]), [tuple(p) for p in o["u"]]

def norm_item(it, **kw):
    v, parts = item_value(it)
    return normalise(v, parts, **kw)

def fmt_dims(d):
    return "*".join("%s^%d" % (n, e) for n, e in zip(R.DIMS, d) if e) or "1"
