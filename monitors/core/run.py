"""Shared run skeleton: sharded workloads, verdict bookkeeping, evidence, findings."""
import hashlib, json, multiprocessing, os, random, sys, time, traceback

sys.set_int_max_str_digits(0)
sys.setrecursionlimit(20000)       # long left-deep chains are walked recursively by the generators and oracles

VERIF = os.path.dirname(os.path.dirname(os.path.dirname(os.path.abspath(__file__))))
OUT = os.environ.get("VERIF_OUT") or VERIF     # evidence/replays/work; only tools/seed_par.sh redirects it (scratch runs)
NCPU = min(16, os.cpu_count() or 4)

def h64(s):
    if not isinstance(s, bytes):
        s = str(s).encode("utf-8", "surrogatepass")
    return int.from_bytes(hashlib.blake2b(s, digest_size=8).digest(), "big")

class Acc:
    """Accumulator for one run (or one shard): what was observed, what was judged."""
    def __init__(self):
        self.evaluations = 0
        self.nontrivial = set()      # hashes of distinct non-trivial cases
        self.samples = []
        self.violations = []         # dicts: {sig, what, case}
        self.violation_count = 0
        self.inconclusive = 0
        self.inconclusive_notes = []
        self.counters = {}
        self.sets = {}               # name -> set of hashable (distinct things seen)
        self.context = {}            # merged into the case of every violation (e.g. {"trace_logging": True} for a shard run with RUST_LOG)

    def count(self, key, n=1):
        self.counters[key] = self.counters.get(key, 0) + n

    def seen(self, name, item):
        self.sets.setdefault(name, set()).add(item)

    def nontriv(self, text):
        self.nontrivial.add(h64(text))

    def sample(self, s, cap=8):
        if len(self.samples) < cap:
            self.samples.append(s)

    def violate(self, sig, what, case):
        self.violation_count += 1
        if len(self.violations) < 400:
            if self.context and isinstance(case, dict):
                case = dict(self.context, **case)
            self.violations.append({"sig": sig, "what": what, "case": case})

    def inconc(self, note):
        self.inconclusive += 1
        if len(self.inconclusive_notes) < 20:
            self.inconclusive_notes.append(note)

    def merge(self, o):
        self.evaluations += o.evaluations
        self.nontrivial |= o.nontrivial
        for s in o.samples:
            if len(self.samples) < 12:
                self.samples.append(s)
        self.violation_count += o.violation_count
        for v in o.violations:
            if len(self.violations) < 2000:
                self.violations.append(v)
        self.inconclusive += o.inconclusive
        self.inconclusive_notes = (self.inconclusive_notes + o.inconclusive_notes)[:20]
        for k, v in o.counters.items():
            self.counters[k] = self.counters.get(k, 0) + v
        for k, v in o.sets.items():
            self.sets.setdefault(k, set()).update(v)
        return self

def _shard_entry(args):
    fn, payload = args
    try:
        return fn(payload)
    except Exception:
        a = Acc()
        a.inconc("shard crashed: " + traceback.format_exc()[-1500:])
        a.counters["shard_crashes"] = 1
        return a

def run_shards(fn, payloads, procs=NCPU):
    """Run fn(payload)->Acc in a process pool and merge."""
    total = Acc()
    if procs <= 1 or len(payloads) <= 1:
        for p in payloads:
            total.merge(_shard_entry((fn, p)))
        return total
    with multiprocessing.get_context("fork").Pool(min(procs, len(payloads))) as pool:
        for a in pool.imap_unordered(_shard_entry, [(fn, p) for p in payloads]):
            total.merge(a)
    return total

def load_findings():
    p = os.path.join(VERIF, "known_findings.json")
    try:
        return json.load(open(p))
    except FileNotFoundError:
        return {"known": [], "fixed": []}

def finish(pid, tier, seed, level, acc, rule, t0, assumptions=None, extra=None, exhaustive=None, min_eval=1):
    """Write evidence, print KNOWN-FINDING / VIOLATION lines, return exit status."""
    findings = load_findings()
    known = {(k["property"], k["signature"]): k for k in findings.get("known", [])}
    reported_known = {}
    new = []
    for v in acc.violations:
        k = known.get((pid, v["sig"]))
        if k is not None:
            reported_known.setdefault(v["sig"], (k, v))
        else:
            new.append(v)
    # violations beyond the retained cap are counted but have no signature: treat as new
    overflow = acc.violation_count - len(acc.violations)

    cov = {
        "evaluations": acc.evaluations,
        "distinct_nontrivial": len(acc.nontrivial),
        "rule": rule,
        "samples": acc.samples[:12] if acc.samples else [],
        "inconclusive": acc.inconclusive,
        "inconclusive_notes": acc.inconclusive_notes,
        "counters": dict(sorted(acc.counters.items())),
        "distinct_seen": {k: len(v) for k, v in sorted(acc.sets.items())},
        "known_findings_reported": sorted(reported_known.keys()),
    }
    if exhaustive is not None:
        cov["exhaustive"] = bool(exhaustive)
    if extra:
        cov.update(extra)

    ev = {
        "property_id": pid, "tier": tier, "seed": seed, "level": level,
        "coverage": cov,
        "assumptions": assumptions or [],
        "wall_s": round(time.time() - t0, 2),
        "violations": len(new) + max(0, overflow),
    }
    os.makedirs(os.path.join(OUT, "evidence"), exist_ok=True)
    with open(os.path.join(OUT, "evidence", pid + ".json"), "w") as f:
        json.dump(ev, f, indent=1, ensure_ascii=False, default=str)
        f.write("\n")

    for sig, (k, v) in sorted(reported_known.items()):
        print("KNOWN-FINDING: property=%s %s [%s]" % (pid, k.get("what", v["what"]), sig))

    status = 0
    rdir = os.path.join(OUT, "replays", pid)
    if os.path.isdir(rdir):
        for fn in os.listdir(rdir):
            if fn.startswith("%s-%s-" % (tier, seed)):
                os.unlink(os.path.join(rdir, fn))
    os.makedirs(os.path.join(OUT, "work"), exist_ok=True)
    with open(os.path.join(OUT, "work", "%s-signatures.json" % pid), "w") as f:
        allsigs = {}
        for v in acc.violations:
            allsigs.setdefault(v["sig"], v["what"])
        json.dump(allsigs, f, indent=1, ensure_ascii=False)
    if new or overflow > 0:
        os.makedirs(rdir, exist_ok=True)
        seen_sigs = set()
        n_out = 0
        for v in new:
            if v["sig"] in seen_sigs:
                continue
            seen_sigs.add(v["sig"])
            if n_out >= 25:
                break
            n_out += 1
            name = "%s-%s-%016x.json" % (tier, seed, h64(v["sig"] + json.dumps(v["case"], sort_keys=True, default=str)))
            path = os.path.join(rdir, name)
            with open(path, "w") as f:
                json.dump({"property": pid, "tier": tier, "seed": seed, **v}, f, indent=1, ensure_ascii=False, default=str)
            print("VIOLATION property=%s replay=%s  # %s" % (pid, path, v["what"][:300].replace("\n", " ")))
        if not new:
            print("VIOLATION property=%s replay=%s  # %d violations beyond the retained cap" % (pid, os.path.join(rdir, "overflow"), overflow))
        print("%s: %d new violation(s) (%d distinct signatures) in %d evaluations" % (pid, len(new) + max(0, overflow), len(seen_sigs), acc.evaluations))
        status = 1
    elif acc.counters.get("shard_crashes"):
        print("%s: INCONCLUSIVE - %d workload shard(s) crashed inside the monitor (harness bug): %s" % (pid, acc.counters["shard_crashes"], acc.inconclusive_notes[:1]))
        status = 2
    elif acc.evaluations < min_eval or len(acc.nontrivial) < 2:
        print("%s: INCONCLUSIVE - the monitor observed too little (%d evaluations, %d non-trivial)" % (pid, acc.evaluations, len(acc.nontrivial)))
        status = 2
    else:
        print("%s: held on %d evaluations (%d distinct non-trivial), %d inconclusive, %d known finding(s); %.1fs" % (
            pid, acc.evaluations, len(acc.nontrivial), acc.inconclusive, len(reported_known), time.time() - t0))
    return status

def seed_tier():
    seed = int(os.environ.get("VERIF_SEED", "0") or 0)
    tier = os.environ.get("VERIF_TIER", "quick") or "quick"
    return seed, tier

def rng_for(seed, *parts):
    return random.Random(h64("%s|%s" % (seed, "|".join(str(p) for p in parts))))
