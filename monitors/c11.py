"""C11 - any input yields values or located errors, never a crash."""
import glob, json, os, re, subprocess, tempfile, shutil, time
from core import build, units_ref as R, facts as FX
from core.driver import Driver, DriverDied, DriverTimeout
from core.run import Acc, finish, rng_for, run_shards, NCPU

PID = "C11"
RULE = ("inputs: (i) random Unicode strings <= 64 chars biased to the lexer's character classes (digits, .eE+-, operators, brackets, "
        "braces, °', multi-byte letters, every kind of Unicode whitespace); (ii) token soups <= 40 tokens from the real vocabulary (numbers "
        "with exponents <= 3 digits, unit words, fact words, function names, `to`, punctuation); (iii) mutations (delete/duplicate/swap/"
        "splice) of every query in tests/ and the README; (iv) mostly well-formed structured queries (quantities, functions incl. round(x,n), facts, "
        "powers, casts), 40% of them mutated; (v) long operator-free phrases (<= 40 words, 100-300 bytes, multi-byte characters at arbitrary byte offsets); (vi) chains of two-digit powers over a quantity of value 1, -1 or 0 (the unit's power heads for the 32-bit limits, the value stays trivial); (vii) pumped strings "
        "prefix + pattern^k + middle + closing^k + suffix of <= 300 characters. Bounds as the property states: a token after ^ or ** (and the digits argument of "
        "round) is an integer literal of <= 2 digits and the product of all power magnitudes in one input is <= 600. Each input is run "
        "through parse+query in the debug-assertion and the release build; refuted by: a panic, abort or signal, no result sequence, an "
        "error whose range is not start<=end<=len on char boundaries or that codespan-reporting cannot render, a value that cannot be "
        "displayed, or non-termination (re-run alone, 60 s, twice). non-trivial = distinct input yielding >=1 error item or >=2 items")

WS = [" ", "\t", "\n", "\r", " ", " ", " ", " ", "　", "\u000b", "\u000c", "\u0085", " ", " ", " "]
from c12 import utf8_classes
UTF8_CLASSES = utf8_classes()
CLASSES = [list("0123456789"), list(".eE+-"), list("*/^%,"), list("(){}"), list("°'"), list("abcdefgklmnopstuxyzABCJKMNTVW"),
           list("éπμΩ…ßλ漢🙂\u2212\u00d7\u00f7\u00b2\u00b3\u00b5\uff11\u0661\u2044\u2030") + UTF8_CLASSES, WS, list("_:\"\\#@!?~`|&;<>=[]$")]
# (UTF8_CLASSES: lowest and highest code point of every possible UTF-8 leading byte, see c12.utf8_classes)
FUNCS = ["sin", "cos", "round", "floor", "ceil"]
PUNCT = ["(", ")", ",", "+", "-", "*", "/", "^", "**", "%", "{", "}", "to"]

def bound_powers(s):
    """Enforce the property's bound on powers: after ^ / ** only an integer literal of <= 2 digits, separated from what follows;
    product of all power magnitudes <= 100; exponent notation of <= 3 digits; round's digits argument <= 2 digits."""
    out = []
    i = 0
    # The budget for the product of the power magnitudes shrinks with the largest exponent-notation literal in the input, so that no
    # input denotes more than ~40 000 digits: beyond that the tool's repeated multiplication is merely slow in the debug build
    # (`228E+505 kkatal ^ 7 ^ 70` = 10^248 000 took > 60 s twice and was reported as non-termination - a false alarm, see DESIGN 6.3)
    emax = max([min(999, int(x)) for x in re.findall(r"[eE][+-]?([0-9]{1,3})", s)] + [0])
    longest = max([len(x) for x in re.findall(r"[0-9]+", s)] + [1])
    budget = max(2, min(600, 40000 // (emax + longest + 1)))
    n = len(s)
    while i < n:
        c = s[i]
        if c == "^" or (c == "*" and i + 1 < n and s[i + 1] == "*"):
            op = "^" if c == "^" else "**"
            j = i + len(op)
            k = j
            while k < n and s[k] in " \t":
                k += 1
            m = re.match(r"[+-]?[0-9]{1,2}(?![0-9.eE])", s[k:])
            if m:
                mag = abs(int(m.group(0)))
                if mag <= 1 or mag <= budget:
                    if mag > 1:
                        budget //= mag
                    out.append(s[i:k + m.end()])
                    i = k + m.end()
                    continue
            out.append(" ")      # drop the operator: keeps the input inside the stated bounds
            i = j
            continue
        out.append(c)
        i += 1
    t = "".join(out)
    t = re.sub(r"([eE][+-]?[0-9]{3})[0-9]+", r"\1", t)
    t = re.sub(r"(round\s*\([^,()]*,\s*[+-]?[0-9]{1,2})[0-9.eE+-]*", r"\1", t)
    # digits argument of round given as something else than a short literal: make it one
    t = re.sub(r"(round\s*\([^,()]*,)\s*(?![+-]?[0-9]{1,2}\s*\))[^)]*\)", r"\1 2)", t)
    return t

def gen_unicode(rng):
    n = rng.randint(0, 64)
    weights = [5, 3, 4, 3, 1, 5, 2, 4, 1]
    k = rng.choice([2, 3, 5, 9])
    cls = rng.choices(range(len(CLASSES)), weights=weights, k=k)
    return "".join(rng.choice(CLASSES[rng.choice(cls)]) for _ in range(n))

def gen_number(rng):
    if rng.random() < 0.05:
        from core import boundary
        return boundary.literal(rng)
    nd = rng.choice([1, 1, 2, 3, 6, rng.randint(1, 40)])
    t = "".join(rng.choice("0123456789") for _ in range(nd))
    r = rng.random()
    if r < 0.3:
        t += "." + "".join(rng.choice("0123456789") for _ in range(rng.randint(0, 12)))
    elif r < 0.35:
        t = "." + t
    if rng.random() < 0.2:
        t += rng.choice("eE") + rng.choice(["", "+", "-"]) + str(rng.randint(0, 999))
    if rng.random() < 0.15:
        t = "-" + t
    return t

def gen_soup(rng, vocab):
    n = rng.randint(1, 40)
    toks = []
    for _ in range(n):
        r = rng.random()
        if r < 0.28:
            toks.append(gen_number(rng))
        elif r < 0.5:
            toks.append(rng.choice(vocab["units"]))
        elif r < 0.6:
            toks.append(rng.choice(vocab["facts"]))
        elif r < 0.68:
            toks.append(rng.choice(FUNCS) + "(")
        else:
            toks.append(rng.choice(PUNCT))
    seps = ["", " ", " ", " ", "  ", "\t"]
    return "".join(t + rng.choice(seps) for t in toks)

def gen_phrase(rng, vocab):
    """A long operator-free run of words (<= 40 tokens): one SENTENCE node of 100-300 bytes, mostly unknown to the database, with
    multi-byte characters (°, non-ASCII blanks) at arbitrary byte offsets - length limits and truncations counted in bytes show
    here (seed C11-d). Sometimes followed by an operator and a well-formed tail."""
    n = rng.randint(8, 40)
    w = rng.choice([None, None, rng.choice(["xylo", "ab", "population", "q", "zzzzzzzz"])])
    seps = [" ", " ", " ", "  ", "\u00a0", "\u3000", "\u2003", " \u00a0"]
    out = []
    for i in range(n):
        r = rng.random()
        if w and r < 0.7:
            t = w
        elif r < 0.8:
            t = rng.choice(vocab["facts"])
        elif r < 0.88:
            t = rng.choice(["°C", "°F", "°", "x°", "°x", "''", "a'b"])
        elif r < 0.93:
            t = str(rng.randint(0, 99))
        else:
            t = "".join(rng.choice("abcdefghijklmnopqrstuvwxyz") for _ in range(rng.randint(1, 9)))
        out.append(t)
        out.append(rng.choice(seps))
    s = "".join(out).strip(" ")
    if rng.random() < 0.3:
        s += rng.choice([" * 2", " + 1 m", " to m", " / (1 + 1)", ")", " ^ 2"])
    return s

PUMP = ["(", ")", "((", "(1+", "(2*", "1+", "+1", "round(", "floor(", "x(", "{", "}", "-", "1 ", " m", "m/", "^2", ",", "(,", "f(*)", " to ", "to m ",
        "1e", ".", "°", "'", "%", "km ", "\u00a0", "**", "//", "1/", "(1/(", "sin(", "a ", "population ", "mass of "]

def gen_pumped(rng, vocab):
    """prefix + pattern^k + middle + closing^k + suffix (<= 300 characters): nesting, repetition and run-length limits of the lexer,
    parser and evaluator (recursion guards, fixed stacks, counters) only show after dozens or hundreds of repetitions of one short
    pattern - which a string of independent random symbols never contains (seeds C11-e, C12-c, C06-d/e)."""
    pat = "".join(rng.choice(PUMP) for _ in range(rng.choice([1, 1, 1, 2, 2, 3])))
    clo = rng.choice(["", "", ")", "))", "}", ") ", ",1)", "+1)"])
    unit = max(1, len(pat) + len(clo))
    k = rng.randint(1, max(1, 290 // unit))
    mid = rng.choice(["", "1", "1", "1.5 km", "x", " ", rng.choice(vocab["facts"]), gen_number(rng)])
    pre = rng.choice(["", "", "1 + ", "2 * ", " ", "round(1, ", "3 m to "])
    suf = rng.choice(["", "", " + 1", " to m", ")", " m", " * 2"])
    return (pre + pat * k + mid + clo * k + suf)[:300]

def gen_tower(rng):
    """A chain of two-digit powers over a quantity whose VALUE is 1, -1 or 0 (so that the repeated-multiplication power loop stays
    trivial and the generator's power budget does not apply): the UNIT's power runs through 99^2, 99^3, 99^4 ... towards the limits
    of a 32-bit integer, alone, multiplied with another quantity, cast, added. Every token is inside the property's bounds."""
    # (prefix-free units without a conversion factor only: 10^(prefix x power) or (381/1250)^power with power ~ 10^6 is merely slow)
    u = rng.choice(["V", "m/s^99", "N", "m", "s^-99", "kg*m/s^2", "W/m^2", "ohm", "m^99/s", "J^-99", "A", "Pa"])
    if "^" not in u and rng.random() < 0.7:
        u += "^%d" % rng.choice([99, -99, 98, 64, 50])
    def chain_(lo, hi):
        return "".join("^%d" % rng.choice([99, 99, 99, 98, 64, 22, 12, 11, 8, 5, 2]) for _ in range(rng.randint(lo, hi)))
    chain = chain_(2, 6)
    q = "(%s %s)%s" % (rng.choice(["1", "1", "-1", "0", "1.0"]), u, chain)
    if rng.random() < 0.5:
        # a product / quotient of towers under one more tower: units whose powers differ by orders of magnitude and in sign
        # (m^1 next to s^-9801) before the outer chain starts - a limit that is checked on the largest power only, or on the
        # numerator only, lets the other one run over (seed C11-g)
        plain = ["m", "s", "kg", "A", "K", "V", "N", "W"]
        def tq():
            w = rng.choice(plain)
            pw = rng.choice(["", "", "^2", "^99", "^-99", "^-1", "^98", "^-64"])
            return "(1 %s%s)%s" % (w, pw, chain_(0, 2))
        base = tq()
        for _ in range(rng.randint(1, 2)):
            base += " %s %s" % (rng.choice("*/"), tq())
        chain = chain_(1, 4)
        q = "(%s)%s" % (base, chain)
    tail = rng.choice(["", "", " * 1m", " * 1 m", " to m", " / 1 s", " + 1 m", " * (1 %s)%s" % (u, chain), " * 2 A", " to V^2", " * 1 N", " / 3 W"])
    return q + tail

def gen_multi(rng, vocab):
    """Several parenthesised expressions in one input, some of them repeated (A, B, A), with phrases the search library refuses
    (dangling upper-case OR / NOT / AND) among them: per-query memos and scratch buffers see the same phrase, the same unit text and the
    same failure more than once in ONE evaluation (seed C11-h: a memo entry made before the lookup failed)."""
    from core import multi
    def part():
        r = rng.random()
        if r < 0.35:
            e = rng.choice(multi.REFUSED)
            return rng.choice(["%s", "%s", "%s * 2", "2 * (%s)", "%s to m", "round(%s)"]) % e
        if r < 0.6:
            return gen_phrase(rng, vocab)[:60].replace("(", " ").replace(")", " ")
        return gen_structured(rng, vocab)[:80].replace("(", " ").replace(")", " ")
    k = rng.randint(2, 5)
    parts = [part() for _ in range(k)]
    for _ in range(rng.randint(1, 2)):
        i = rng.randrange(k)
        parts[rng.randrange(k)] = parts[i]
    sep = rng.choice([" ", " ", "", "  "])
    return sep.join("(" + x + ")" for x in parts)

def mutate(rng, s):
    toks = re.findall(r"\s+|[A-Za-z°']+|[0-9.]+(?:[eE][+-]?[0-9]+)?|.", s, re.S)
    for _ in range(rng.randint(1, 4)):
        if not toks:
            break
        op = rng.randint(0, 4)
        i = rng.randrange(len(toks))
        if op == 0:
            del toks[i]
        elif op == 1:
            toks.insert(i, toks[i])
        elif op == 2 and len(toks) > 1:
            j = rng.randrange(len(toks))
            toks[i], toks[j] = toks[j], toks[i]
        elif op == 3:
            toks.insert(i, rng.choice(PUNCT + [" ", "1", "m", "population"]))
        else:
            toks[i] = rng.choice(PUNCT + FUNCS + ["0", "1e3", "kg", " "])
    return "".join(toks)

ZEROISH = ["0", "0.0", "-0", "0%", "0 m", "0 K", "0 kg*m/s^2", "-273.15 °C", "-273.15°C", "-459.67 °F", "-459.67°F", "-273.15 celsius",
           "(0 K to °C)", "(0K to °F)", "(0 °C - 273.15)", "(1 - 1)", "(2 m - 200 cm)", "(1 km - 1000 m)", "0 ^ 1", "(0 m) ^ 2", "32 °F", "-40 °C",
           "273.15 K", "1", "-1", "1 m", "(5 s / 5 s)", "1e-30", "1e30", "0e5", ".0"]

def gen_structured(rng, vocab):
    """Mostly well-formed queries so that the evaluator (not only the error paths of the parser) is exercised."""
    from core import exact
    def num():
        return gen_number(rng)
    def qty():
        u = rng.choice(vocab["units"])
        if rng.random() < 0.4:
            u += rng.choice(["*", "/", " "]) + rng.choice(vocab["units"])
        if rng.random() < 0.3:
            u += "^%d" % rng.choice([-3, -2, -1, 2, 3, 0, 12])
        return "%s %s" % (num(), u)
    def atom():
        r = rng.random()
        if rng.random() < 0.04:
            # a prefixed unit under a power of two, raised once more: prefix exponent x accumulated power runs through 128, 256, 512
            # (tables of powers of ten, fixed-width exponents) while the value stays small
            px = rng.choice(["d", "da", "c", "h", "k", "m", "M", "u", "n", "G"])
            base = rng.choice(["m", "s", "g", "A", "l", "N", "W"])
            p1, p2 = rng.choice([2, 4, 8, 16, 32, 64, 99, -8, -16, -64]), rng.choice([2, 4, 8, 16, 32, 64, -4, -32])
            if abs(p1 * p2) > 600:
                p2 = rng.choice([2, 4, -4])
            return "(%s %s%s^%d)^%d" % (rng.choice(["1", "2", "-1", "0.5"]), px, base, p1, p2)
        if r < 0.08:
            # boundary dictionary: quantities that are (or become after unit conversion) zero, one or a scale's fixed point
            return rng.choice(ZEROISH)
        if r < 0.25:
            return num()
        if r < 0.55:
            return qty()
        if r < 0.65:
            return " ".join(rng.sample(vocab["facts"], rng.randint(1, 3)))
        if r < 0.9:
            f = rng.choice(FUNCS)
            if f == "round" and rng.random() < 0.7:
                return "round(%s %s %s, %d)" % (num(), rng.choice("/*+-"), num(), rng.randint(-20, 20))
            args = ", ".join(rng.choice([num, qty])() for _ in range(rng.choice([0, 1, 1, 1, 2, 3])))
            return "%s(%s)" % (f, args)
        return "(" + atom() + " " + rng.choice(["+", "-", "*", "/"]) + " " + atom() + ")"
    parts = [atom()]
    for _ in range(rng.randint(0, 4)):
        op = rng.choice(["+", "-", "*", "/", "^", "to", "*", "/", "/"])
        if op == "^":
            parts += ["^", str(rng.randint(-9, 9))]
        elif op == "to":
            parts += ["to", rng.choice(vocab["units"])]
        else:
            parts += [op, atom()]
    s = " ".join(parts)
    if rng.random() < 0.4:
        s = mutate(rng, s)
    return s

def corpus():
    out = set()
    for p in glob.glob(build.REPO + "/tests/**/*.rs", recursive=True) + [build.REPO + "/README.md", build.REPO + "/src/lib.rs"]:
        try:
            txt = open(p, encoding="utf-8").read()
        except Exception:
            continue
        for m in re.finditer(r'"([^"\\\n]{1,120})"', txt):
            out.add(m.group(1))
        for m in re.finditer(r"`any ([^`\n]{1,120})`", txt):
            out.add(m.group(1))
    return sorted(out)

def judge(acc, s, rep, kind, family):
    case = {"input": s, "build": kind, "family": family}
    if "panic" in rep:
        loc = rep.get("panic_loc") or "?"
        acc.violate("c11:panic:" + re.sub(r"^.*/(src/.*)$", r"\1", loc), "input %r panicked (%s build): %s" % (s, kind, rep["panic"]), dict(case, observed=rep["panic"]))
        return
    if "parse_err" in rep:
        acc.violate("c11:no-result-sequence", "parse(%r) failed: %s" % (s, rep["parse_err"]), dict(case, observed=rep["parse_err"]))
        return
    if "harness_error" in rep:
        acc.inconc("harness: %r" % (rep,))
        return
    items = rep.get("items", [])
    n_err = 0
    blen = len(s.encode("utf-8"))
    for it in items:
        if "ok" in it:
            if "display_panic" in it["ok"]:
                acc.violate("c11:value-not-displayable", "a result of %r cannot be displayed: %s" % (s, it["ok"]["display_panic"]), dict(case, observed=it["ok"]))
                return
        else:
            n_err += 1
            e = it["err"]
            acc.seen("error_kinds", re.sub(r"`[^`]*`|[0-9]+", "_", e["msg"])[:60])
            if not (0 <= e["start"] <= e["end"] <= blen) or not e["start_boundary"] or not e["end_boundary"]:
                acc.violate("c11:error-range-outside-input", "error %r of input %r has range %d..%d (input is %d bytes; on char boundaries: %s/%s)" % (
                    e["msg"], s, e["start"], e["end"], blen, e["start_boundary"], e["end_boundary"]), dict(case, observed=e))
                return
            if "render_error" in e:
                acc.violate("c11:diagnostic-cannot-be-rendered", "the diagnostic %r for %r cannot be rendered: %s" % (e["msg"], s, e["render_error"]), dict(case, observed=e))
                return
            if not e.get("msg"):
                acc.violate("c11:error-without-message", "input %r: error without message" % (s,), dict(case, observed=e))
                return
    if n_err >= 1 or len(items) >= 2:
        acc.nontriv(s)
    acc.count("items", len(items))
    acc.count("error_items", n_err)

def shard(p):
    acc = Acc()
    rng = rng_for(p["seed"], PID, p["shard"])
    vocab = p["vocab"]
    inputs = []
    for _ in range(p["n"]):
        r = rng.random()
        if r < 0.015:
            inputs.append(("tower", gen_tower(rng)))
        elif r < 0.04:
            inputs.append(("multi", gen_multi(rng, vocab)))
        elif r < 0.05:
            inputs.append(("pumped", gen_pumped(rng, vocab)))
        elif r < 0.10:
            inputs.append(("phrase", gen_phrase(rng, vocab)))
        elif r < 0.25:
            inputs.append(("unicode", gen_unicode(rng)))
        elif r < 0.5:
            inputs.append(("soup", gen_soup(rng, vocab)))
        elif r < 0.8:
            inputs.append(("structured", gen_structured(rng, vocab)))
        else:
            inputs.append(("mutation", mutate(rng, rng.choice(p["corpus"]))))
    # operator sequences with `to` among them (see c12), evaluated: a share per shard
    import itertools
    OPS7 = ["+", "-", "*", "/", "^", "**", "to"]
    k_ = 0
    for L in (2, 3, 4, 5):
        for seq in itertools.product(OPS7, repeat=L):
            k_ += 1
            if k_ % 16 != p["shard"] % 16 or (L == 5 and (k_ // 16 + p["seed"]) % 4):
                continue
            toks = ["3 km"]
            for o in seq:
                toks += [o, rng.choice(["m", "mi", "s"]) if o == "to" else rng.choice(["2", "2 m", "1"])]
            inputs.append(("opseq", " ".join(toks)))
    # the same unit twice in one unit text under every ordered pair of prefixes (km/m, yg/kg, mK*kK ...): the tool may refuse the mix -
    # the refusal has to be a located error like any other (seed C11-i: rendering the message panics for one prefix of one unit)
    PX = ["Y", "Z", "E", "P", "T", "G", "M", "k", "h", "da", "", "d", "c", "m", "μ", "u", "n", "p", "f", "a", "z", "y"]
    units_ = ["g", "m", "s", "A", "K", "mol", "cd", "B", "N", "J", "W", "Pa", "l", "V", "Hz", "eV", "t", "b"]
    k_ = 0
    for u_ in units_:
        for a_ in PX:
            for b_ in PX:
                k_ += 1
                if a_ == b_ or k_ % 16 != p["shard"] % 16:
                    continue
                inputs.append(("prefixpair", "1 %s%s%s%s%s" % (a_, u_, rng.choice(["/", "*", " "]), b_, u_)))
    inputs = [(f, s if f == "tower" else bound_powers(s)) for f, s in inputs]
    for kind in p["builds"]:
        d = Driver(p["bins"][kind])
        try:
            B = 500
            for i in range(0, len(inputs), B):
                chunk = inputs[i:i + B]
                reqs = [{"op": "query", "q": s, "full": True, "render": True} for _, s in chunk]
                try:
                    reps = d.call_many(reqs, timeout=90)
                except (DriverDied, DriverTimeout) as ex:
                    d.restart()
                    acc.count("batches_rerun_one_by_one")
                    reps = []
                    for f, s in chunk:
                        verdict = None
                        for attempt in range(2):
                            try:
                                reps_one = d.call({"op": "query", "q": s, "full": True, "render": True}, timeout=60)
                                verdict = reps_one
                                break
                            except DriverTimeout:
                                d.restart()
                                verdict = "timeout"
                            except DriverDied as ex2:
                                d.restart()
                                verdict = "died:%s" % (ex2,)
                        if verdict == "timeout":
                            if still_running_after_long_budget(p["bins"], s):
                                acc.violate("c11:does-not-terminate", "input %r did not finish within 60 s, twice, alone on an idle driver (%s build), nor within 600 s on the release build" % (s, kind), {"input": s, "build": kind, "family": f})
                            else:
                                acc.inconc("input %r was slow (> 60 s twice on the %s build) but finished on the release build: no verdict" % (s[:200], kind))
                            reps.append(None)
                        elif isinstance(verdict, str):
                            acc.violate("c11:process-killed", "input %r kills the process (%s build): %s" % (s, kind, verdict), {"input": s, "build": kind, "family": f})
                            reps.append(None)
                        else:
                            reps.append(verdict)
                for (f, s), rep in zip(chunk, reps):
                    acc.evaluations += 1
                    acc.count("family_" + f)
                    if rep is not None:
                        judge(acc, s, rep, kind, f)
                        if kind == p["builds"][0] and rep.get("items"):
                            acc.sample({"input": s, "results": [("ok" if "ok" in it else it["err"]["msg"]) for it in rep["items"]][:4]}, cap=1)
        finally:
            d.close()
    return acc

def cli_sample(acc, b, inputs, valgrind_n):
    home = tempfile.mkdtemp(prefix="c11-")
    try:
        env = dict(os.environ, XDG_DATA_HOME=home)
        subprocess.run([b["any"], "--", "1"], env=env, stdout=subprocess.PIPE, stderr=subprocess.PIPE, timeout=300)
        for i, s in enumerate(inputs):
            if "\x00" in s:
                continue
            argv = [b["any"], "--", s]
            tag = "any"
            if i < valgrind_n:
                argv = ["valgrind", "-q", "--error-exitcode=97", "--"] + argv
                tag = "any-under-valgrind"
            try:
                r = subprocess.run(argv, env=env, stdout=subprocess.PIPE, stderr=subprocess.PIPE, timeout=600)
            except subprocess.TimeoutExpired:
                acc.inconc("%s timed out on %r" % (tag, s))
                continue
            acc.evaluations += 1
            acc.count("cli_" + tag)
            err = r.stderr.decode("utf-8", "replace")
            if r.returncode != 0 or "panicked" in err:
                acc.violate("c11:cli:" + ("valgrind-report" if r.returncode == 97 else "abnormal-exit"), "`any -- %r` exited with %d: %s" % (s, r.returncode, err[-400:]), {"input": s, "tool": tag, "status": r.returncode, "stderr": err[-2000:]})
    finally:
        shutil.rmtree(home, ignore_errors=True)

def still_running_after_long_budget(bins, s):
    """Third opinion before a wall-clock verdict: the same input alone on the RELEASE build with a ten-minute budget. Only an input that
    does not finish there either is reported as non-termination; one that does finish was merely slow (a loaded machine, a debug-build
    multiplication of a very long number) and carries no verdict."""
    d = Driver(bins["rel"])
    try:
        d.call({"op": "query", "q": s}, timeout=600)
        return False
    except DriverTimeout:
        return True
    except DriverDied:
        return False
    finally:
        d.close(kill=True)

def run_alone(acc, bins, s, family):
    """One input, alone, on fresh drivers of both build kinds, with the termination procedure of the property."""
    for kind in ("dbg", "rel"):
        d = Driver(bins[kind])
        try:
            verdict = None
            for attempt in range(2):
                try:
                    verdict = d.call({"op": "query", "q": s, "full": True, "render": True}, timeout=60)
                    break
                except DriverTimeout:
                    d.restart()
                    verdict = "timeout"
                except DriverDied as ex:
                    d.restart()
                    verdict = "died:%s" % (ex,)
            acc.evaluations += 1
            acc.count("family_" + family)
            if verdict == "timeout":
                if still_running_after_long_budget(bins, s):
                    acc.violate("c11:does-not-terminate", "input %r did not finish within 60 s, twice, alone on an idle driver (%s build), nor within 600 s on the release build" % (s, kind), {"input": s, "build": kind, "family": family})
                else:
                    acc.inconc("input %r was slow (> 60 s twice on the %s build) but finished on the release build: no verdict" % (s[:200], kind))
            elif isinstance(verdict, str):
                acc.violate("c11:process-killed", "input %r kills the process (%s build): %s" % (s, kind, verdict), {"input": s, "build": kind, "family": family})
            else:
                judge(acc, s, verdict, kind, family)
        finally:
            d.close(kill=True)

def fuzz_stage(acc, seed, bins, vocab, corp, seconds):
    """Coverage-guided search (libFuzzer + ASan, 16 forks) for inputs; every artifact is re-judged by the ordinary oracle."""
    from core import fuzz
    from core.run import OUT
    r3 = rng_for(seed, PID, "fuzz-seeds")
    seeds = list(corp)
    for _ in range(3000):
        x = r3.random()
        seeds.append(bound_powers(gen_unicode(r3) if x < 0.15 else gen_soup(r3, vocab) if x < 0.3 else gen_pumped(r3, vocab) if x < 0.4 else gen_phrase(r3, vocab) if x < 0.5 else gen_structured(r3, vocab)))
    dictionary = sorted(set(vocab["units"][:400] + vocab["facts"][:300] + FUNCS + PUNCT + ZEROISH + ["°C", "°F", "e-3", "E+2", "^2", "^-1", " to ", "%"]))
    try:
        res = fuzz.run("c11", seeds, dictionary, seconds, os.path.join(OUT, "work", "fuzz-c11"), max_len=300)
    except Exception as ex:
        acc.inconc("fuzz stage failed to run: %r" % (ex,))
        return
    if res["status"] != "ok":
        acc.inconc("fuzz stage: %s: %s" % (res["status"], res.get("log_tail", "")[-400:]))
        return
    acc.counters["fuzz_executions"] = res["executions"]
    acc.counters["fuzz_coverage_edges"] = res["coverage"]
    acc.counters["fuzz_corpus_files"] = res["corpus"]
    acc.counters["fuzz_crash_artifacts"] = len(res["crashes"])
    acc.counters["fuzz_timeout_artifacts"] = len(res["timeouts"])
    acc.counters["fuzz_asan_reports"] = res["asan_reports"]
    acc.evaluations += res["executions"]
    for frame in res["asan_in_crate"]:
        acc.violate("c11:asan:" + frame, "AddressSanitizer report under libFuzzer with a frame in the crate: " + frame, {"frame": frame, "log_tail": res["log_tail"][-1500:]})
    before = acc.violation_count
    seen = set()
    for kind, blobs in (("fuzz-crash", res["crashes"]), ("fuzz-timeout", res["timeouts"])):
        for blob in blobs[:200]:
            try:
                s = blob.decode("utf-8")
            except UnicodeDecodeError:
                continue
            if s in seen or bound_powers(s) != s and kind == "fuzz-timeout":
                continue
            seen.add(s)
            n0 = acc.violation_count
            run_alone(acc, bins, s, kind)
            if acc.violation_count == n0:
                acc.count(kind + "_artifacts_not_reproduced_by_the_oracle")
                if kind == "fuzz-crash":
                    acc.inconc("libFuzzer artifact %r does not violate the property when re-judged through vdriver" % (s[:80],))

def run(tier, seed):
    t0 = time.time()
    b = build.build("dbg")
    bins = {"dbg": b["vdriver"], "rel": build.build("rel")["vdriver"]}
    with Driver(bins["dbg"]) as d:
        facts, _ = FX.load(d)
    fwords = sorted({t for f in facts for t in f["tokens"] if FX.WORD.match(t)})
    units = sorted(R.NAME2UNITS) + ["k" + n for n in sorted(R.NAME2UNITS)][:120] + ["m^2", "s^-1", "km/h", "kg*m/s^2", "°C", "°F"]
    vocab = {"units": units, "facts": fwords}
    corp = corpus()
    n = 48000 if tier == "quick" else 3000000
    stages = (os.environ.get("VERIF_C11_STAGES") or "random,cli,asan,fuzz").split(",")      # development knob; the registered commands run all stages
    if "random" not in stages:
        n = 1600
    payloads = [{"seed": seed, "shard": i, "n": n // NCPU, "vocab": vocab, "corpus": corp, "builds": ["dbg", "rel"], "bins": bins} for i in range(NCPU)]
    acc = run_shards(shard, payloads)
    rng = rng_for(seed, PID, "cli")
    cli_inputs = [bound_powers(gen_soup(rng, vocab)) for _ in range(60 if tier == "quick" else 400)] + [bound_powers(gen_unicode(rng)) for _ in range(40 if tier == "quick" else 200)]
    if "cli" in stages:
        cli_sample(acc, b, cli_inputs, 2 if tier == "quick" else 12)
    if tier == "thorough" and "asan" in stages:
        from core import sanit
        r2 = rng_for(seed, PID, "asan")
        ins = []
        for _ in range(40000):
            x = r2.random()
            ins.append(bound_powers(gen_unicode(r2) if x < 0.25 else gen_soup(r2, vocab) if x < 0.5 else gen_structured(r2, vocab) if x < 0.8 else mutate(r2, r2.choice(corp))))
        try:
            reps, reports, code = sanit.asan_run([{"op": "query", "q": q, "full": True, "render": True} for q in ins], timeout=7200)
            for q, rep in zip(ins, reps):
                acc.evaluations += 1
                acc.count("family_asan")
                judge(acc, q, rep, "asan", "asan")
            acc.counters["asan_reports"] = len(reports)
            for r in reports:
                who, frame = sanit.classify(r)
                if who == "anything":
                    acc.violate("c11:asan:" + str(frame), "AddressSanitizer report with a frame in the crate: " + r[:600], {"report": r[:4000]})
                else:
                    acc.count("asan_reports_in_dependencies_only")
            if len(reps) < len(ins) and not reports:
                acc.inconc("asan driver stopped after %d of %d inputs (exit %s) without a sanitizer report" % (len(reps), len(ins), code))
        except Exception as ex:
            acc.inconc("asan run failed: %r" % (ex,))
    if tier == "thorough" and "fuzz" in stages:
        fuzz_stage(acc, seed, bins, vocab, corp, int(os.environ.get("VERIF_C11_FUZZ_SECONDS") or 600))
    acc.counters["corpus_queries"] = len(corp)
    return finish(PID, tier, seed, "exploration", acc, RULE, t0,
                  assumptions=["inputs are kept inside the property's bounds by a static filter (powers <= 2 digits, product of power magnitudes <= 600, exponents <= 3 digits, round's digits argument <= 2 digits); outside them the repeated-multiplication power loop simply runs long",
                               "wall-clock is a verdict only for non-termination, after the input was re-run alone twice with a 60 s budget"],
                  min_eval=1000)

def replay(path):
    v = json.load(open(path))
    c = v["case"]
    with Driver(build.build(c.get("build", "dbg"))["vdriver"]) as d:
        print(json.dumps({"input": c["input"], "now": d.call({"op": "query", "q": c["input"], "full": True, "render": True}, timeout=120)}, ensure_ascii=False)[:3000])
    return 0
