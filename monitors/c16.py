"""C16 - every shipped fact can be found by its own words."""
import itertools, json, time
from core import build, facts as FX
from core.driver import Driver, DriverDied, DriverTimeout
from core.run import Acc, finish, rng_for, run_shards, NCPU

PID = "C16"
RULE = ("ground truth: the 878 constants of /repo/db/*.bin.gz decoded by the harness as generic CBOR. For every constant whose words are "
        "typeable as one phrase (word class of the lexer, not `to`, not starting with a digit) the phrase and its permutations (all orders "
        "for <=3 words; otherwise reversed, all rotations, every word moved to the end / to the front, and 6 random orders) are evaluated, per "
        "constant on 16 databases and once more on ONE database with all phrases sorted so that near-duplicates are adjacent; they are evaluated with descriptions on: exactly one Ok result, exactly one description, "
        "whose constant carries ALL query words among its tokens, has value, unit, description, and a source id that Db::get_source "
        "resolves. Untypeable constants are listed, not judged. non-trivial = distinct (constant, word order) query")

BLANKS = [" ", "\t"]      # run(): replaced by c06.discover_blanks()

def more_orders(toks):
    """Systematic orders for phrases of more than three words: reversed, all rotations, every word moved to the end and to the front."""
    toks = list(toks)
    out = [tuple(reversed(toks))]
    for i in range(1, len(toks)):
        out.append(tuple(toks[i:] + toks[:i]))
    for i in range(len(toks)):
        rest = toks[:i] + toks[i + 1:]
        out.append(tuple(rest + [toks[i]]))
        out.append(tuple([toks[i]] + rest))
    return out

def shard(p):
    acc = Acc()
    rng = rng_for(p["seed"], PID, p["shard"])
    env = p.get("env") or {}
    d = Driver(p["bin"], env=env)
    try:
        if p.get("mode") == "disk":
            r = d.call({"op": "db", "mode": "disk"}, timeout=600)
            if "ok" not in r:
                acc.inconc("cannot open on-disk db: %r" % (r,))
                return acc
            if p.get("reopen"):
                r = d.call({"op": "db", "mode": "disk"}, timeout=600)
        elif p.get("fresh"):
            d.call({"op": "db", "mode": "in_memory"}, timeout=600)
        reqs, meta = [], []
        for f in p["facts"]:
            toks = f["tokens"]
            orders = [tuple(toks)]
            if len(toks) <= 3:
                orders = list(itertools.permutations(toks))
            else:
                orders += more_orders(toks)
                for _ in range(6):
                    o = list(toks)
                    rng.shuffle(o)
                    orders.append(tuple(o))
            seen = set()
            for o in orders:
                if o in seen or o[0][0].isdigit():
                    continue
                seen.add(o)
                q = " ".join(o)
                reqs.append({"op": "query", "q": q, "describe": True})
                meta.append((f, q, o == tuple(toks)))
            # the own words separated by RUNS of blanks (1-16 characters, every character this build's lexer treats as a blank):
            # the number and kind of blanks between the words of a phrase must not matter (C06; seed C16-d)
            if len(toks) > 1 and not toks[0][0].isdigit():
                for _ in range(2):
                    q = toks[0]
                    for w in toks[1:]:
                        q += "".join(rng.choice(BLANKS) if rng.random() < 0.5 else " " for _ in range(rng.choice([1, 2, 3, 5, 8, 12, 13, 16]))) + w
                    reqs.append({"op": "query", "q": q, "describe": True})
                    meta.append((f, q, False))
        if p.get("adjacent"):
            # interference: sub-phrases of the facts' own words (one word dropped; a repeated word dropped altogether), asked on the
            # same database object. They are not judged themselves (they are nobody's "own words"); they are there so that whatever
            # the database remembers about word SETS meets the full phrase afterwards (seed C16-f)
            extra = set()
            for f in p["facts"]:
                toks = f["tokens"]
                if len(toks) < 3 or toks[0][0].isdigit():
                    continue
                for w in set(toks):
                    if toks.count(w) > 1:
                        extra.add(" ".join(t for t in toks if t != w))
                if len(toks) <= 6:
                    for i in range(len(toks)):
                        sub_ = toks[:i] + toks[i + 1:]
                        if not sub_[0][0].isdigit():
                            extra.add(" ".join(sub_))
            own = {m[1] for m in meta}
            pre = [({"op": "query", "q": q, "describe": True}, (None, q, False)) for q in sorted(extra - own)]
            # near-duplicate phrases next to each other, ascending and then descending: anything the database remembers from one
            # lookup to the next (a memo keyed on a prefix, a case fold or a hash of the phrase; seeds C16-c, C14-c) is asked the
            # most confusable question right afterwards
            order = sorted(range(len(reqs)), key=lambda i: meta[i][1])
            order = order + order[::-1]
            reqs, meta = [x[0] for x in pre] + [reqs[i] for i in order], [x[1] for x in pre] + [meta[i] for i in order]      # interference first
        # interference of another kind: phrases the search library refuses or reads as operators (a dangling upper-case NOT / OR / AND,
        # an only-excluding phrase), sprinkled between the judged lookups of the session. A scratch buffer or a flag that the error path
        # leaves behind meets the next fact (seeds C16-h, C18-h)
        ws = sorted({t for f in p["facts"] for t in f["tokens"] if t.isalpha() and len(t) > 2})
        if ws:
            nr, nm = [], []
            for r_, m_ in zip(reqs, meta):
                if rng.random() < 0.03:
                    e = rng.choice(["%s NOT", "OR %s", "%s AND AND x", "NOT %s", "%s OR", "%s radius OR", "NOT NOT %s", "%s mass NOT"]) % rng.choice(ws)
                    if rng.random() < 0.5:
                        # ... spelled with runs of blanks / tabs / the build's other blank characters, like the judged phrases (seed C16-k:
                        # only irregularly spaced phrases go through the buffer that a refusal leaves dirty)
                        e = e.replace(" ", rng.choice(["  ", "\t", " \t ", "   "] + [b_ + " " for b_ in BLANKS if b_ not in (" ", "\t")][:4]))
                    nr.append({"op": "query", "q": e, "describe": True})
                    nm.append((None, e, False))
                    acc.count("refused_phrases_between_lookups")
                nr.append(r_)
                nm.append(m_)
            reqs, meta = nr, nm
        for i in range(0, len(reqs), 2000):
            try:
                reps = d.call_many(reqs[i:i + 2000], timeout=600)
            except (DriverDied, DriverTimeout) as ex:
                acc.inconc("driver: %r" % (ex,))
                d.restart()
                continue
            for j, ((f, q, own_order), rep) in enumerate(zip(meta[i:i + 2000], reps)):
                if f is None:
                    acc.count("interference_queries_not_judged")
                    continue
                acc.evaluations += 1
                acc.nontriv(q)
                acc.count("own_order" if own_order else "permuted_order")
                if p.get("adjacent"):
                    acc.count("adjacent_session_queries")
                case = {"query": q, "fact": f["description"], "fact_tokens": f["tokens"], "session": p.get("label", "in-memory"),
                        "preceded_by": [m[1] for m in meta[max(0, i + j - 3):i + j]]}
                if "panic" in rep:
                    acc.violate("c16:panic:" + str(rep.get("panic_loc")), "%r panicked: %s" % (q, rep["panic"]), dict(case, observed=rep["panic"]))
                    continue
                items = rep.get("items") or []
                descs = rep.get("descs") or []
                case["observed"] = {"items": items, "descriptions": [x["description"] for x in descs]}
                if len(items) != 1 or "ok" not in items[0]:
                    acc.violate("c16:not-found:" + " ".join(f["tokens"]), "asking for %r (the words of %r) gave %s" % (q, f["description"], [it.get("err", {}).get("msg") for it in items]), case)
                    continue
                if len(descs) != 1:
                    acc.violate("c16:descriptions", "%r gave %d descriptions" % (q, len(descs)), case)
                    continue
                c = descs[0]
                missing = [w for w in f["tokens"] if w not in c["tokens"]]
                if missing:
                    acc.violate("c16:other-constant:" + " ".join(f["tokens"]), "asking for %r returned %r which lacks the words %s" % (q, c["description"], missing), case)
                    continue
                if not c["description"] or c["v"] is None or not isinstance(c["u"], list):
                    acc.violate("c16:incomplete", "%r returned a constant that does not decode completely: %s" % (q, c), case)
                    continue
                if c["source"] is not None and not c["source_resolves"]:
                    acc.violate("c16:source-unresolved", "%r returned %r whose source id %s does not resolve" % (q, c["description"], c["source"]), case)
                    continue
                if f["source"] is not None and c["source"] is None and c["description"] == f["description"]:
                    acc.violate("c16:source-lost", "%r: the shipped record has source %s, the decoded constant none" % (q, f["source"]), case)
                    continue
                if c["v"] != items[0]["ok"]["v"] or c["u"] != items[0]["ok"]["u"]:
                    acc.violate("c16:value-mismatch", "%r: result %s differs from the described constant %s" % (q, items[0]["ok"], c["v"]), case)
                    continue
                acc.seen("constants_found", c["description"])
                if own_order:
                    acc.sample({"query": q, "found": c["description"], "value": c["v"], "unit": c["u"]}, cap=1)
    finally:
        d.close()
    return acc

def run(tier, seed):
    import tempfile, shutil
    t0 = time.time()
    bins = {k: build.build(k)["vdriver"] for k in ("dbg", "rel")}
    with Driver(bins["dbg"]) as d:
        facts, sources = FX.load(d)
    import c06
    BLANKS[:] = c06.discover_blanks(bins["dbg"])
    ty = [f for f in facts if FX.typeable(f["tokens"])]
    un = [f for f in facts if not FX.typeable(f["tokens"])]
    acc = Acc()
    acc.counters["shipped_constants"] = len(facts)
    acc.counters["typeable_constants"] = len(ty)
    acc.counters["untypeable_constants_listed_not_judged"] = len(un)
    slim = [{"tokens": f["tokens"], "description": f["description"], "source": f["source"]} for f in ty]
    payloads = [{"seed": seed, "shard": i, "facts": slim[i::NCPU], "bin": bins["dbg"]} for i in range(NCPU)]
    # one more session on a single database object: every (constant, order) query, sorted so that near-duplicates are adjacent
    payloads.append({"seed": seed, "shard": 77, "facts": slim, "bin": bins["dbg"], "adjacent": True, "label": "one Db, phrases sorted (ascending, then descending)"})
    tmp = None
    if tier == "thorough":
        for b in range(4):
            payloads += [{"seed": seed, "shard": 100 * (b + 1) + i, "facts": slim[i::NCPU], "bin": bins["rel" if b % 2 else "dbg"], "fresh": True, "label": "independent build %d" % (b + 2)} for i in range(NCPU)]
        tmp = tempfile.mkdtemp(prefix="c16-")
        # on-disk: first one process builds the index, then 16 reopen it
        with Driver(bins["dbg"], env={"XDG_DATA_HOME": tmp}) as d:
            d.call({"op": "db", "mode": "disk"}, timeout=600)
        payloads += [{"seed": seed, "shard": 900 + i, "facts": slim[i::NCPU], "bin": bins["dbg"], "mode": "disk", "env": {"XDG_DATA_HOME": tmp}, "label": "reopened on-disk index"} for i in range(NCPU)]
    try:
        acc.merge(run_shards(shard, payloads))
    finally:
        if tmp:
            shutil.rmtree(tmp, ignore_errors=True)
    return finish(PID, tier, seed, "exploration", acc, RULE, t0,
                  assumptions=["the generic CBOR decode of the data files is the ground truth for which constants are shipped"],
                  extra={"untypeable_examples": [f["tokens"] for f in un[:8]], "sessions": "one in-memory index per shard" + ("; 4 more independent in-memory builds; reopened on-disk index" if tier == "thorough" else "")},
                  exhaustive=True, min_eval=500)

def replay(path):
    v = json.load(open(path))
    c = v["case"]
    with Driver(build.build("dbg")["vdriver"]) as d:
        for q0 in c.get("preceded_by", []):
            d.call({"op": "query", "q": q0, "describe": True})
        rep = d.call({"op": "query", "q": c["query"], "describe": True})
    print(json.dumps({"query": c["query"], "fact": c["fact"], "now": {"items": rep.get("items"), "descs": [x["description"] for x in rep.get("descs", [])]}}, ensure_ascii=False))
    return 0
