"""C04 - products, quotients and integer powers of quantities are dimensionally exact."""
import json, time
from fractions import Fraction as F
from core import build, unitgen as G, units_ref as R, exact, boundary
from core.driver import Driver, DriverDied, DriverTimeout
from core import multi
from core.run import Acc, finish, rng_for, run_shards, NCPU
from c02 import mag
import c06

PID = "C04"
RULE = ("random expression trees (depth <= 5) over quantity literals `x U` (U from the compound generator: derived, prefixed, powered "
        "units) and plain numbers, combined with * / ^n (n in -3..3, incl. 0) and parentheses; reference model: a quantity is (SI value, "
        "exponent vector), * multiplies/adds, / divides/subtracts, ^n raises/scales, ^0 is the dimensionless one; the tool's result is "
        "SI-normalised through the frozen reference and must equal the model exactly, whichever derived units it chose to display; "
        "(q)^n is also compared with q*q*...*q; division by a zero quantity must be an error. "
        "non-trivial = distinct query with >=2 operators involving a derived or prefixed unit")

class Zero(Exception):
    pass

def model(t):
    if t[0] == "lit":
        return t[2], t[3]
    if t[0] == "paren":
        return model(t[1])
    op = t[1]
    (a, da) = model(t[2])
    if op == "^":
        n = int(t[3][2])
        if n == 0:
            return F(1), R.ZERO_DIMS
        if a == 0 and n < 0:
            raise Zero()
        return a ** n, tuple(x * n for x in da)
    (b, db) = model(t[3])
    if op == "*":
        return a * b, R.add_dims(da, db)
    if b == 0:
        raise Zero()
    return a / b, R.add_dims(da, db, -1)

def gen(rng, V, depth, pools):
    if depth <= 0 or rng.random() < 0.25:
        r = rng.random()
        if r < 0.12:
            xs, x = mag(rng)
            if rng.random() < 0.2:
                xs, x = xs + "%", x / 100          # a percentage is a plain number
            return ("lit", xs, x, R.ZERO_DIMS)
        if r < 0.16:
            f = V.rand_factors(rng, nmax=1)
            return ("lit", "0 " + G.text(f, rng), F(0), V.factors_si(f)[1])
        pool = rng.choice(pools)
        # (now and then a literal of 9-14 distinct units, prefixes included: per-component tables of fixed size, seed C13-i)
        f = V.rand_factors(rng, nmax=rng.choice([1, 1, 2, 3]) if rng.random() < 0.97 else rng.choice([9, 12, 14, 20]), pool=pool)
        s, dims = V.factors_si(f)
        xs, x = mag(rng)
        form = rng.random()
        if form < 0.08:
            # a rounding function around the literal: it works on the number as written and keeps the unit (C10), the result is
            # an operand like any other
            fn = rng.choice(["round", "floor", "ceil"])
            return ("lit", "%s(%s %s)" % (fn, xs, G.text(f, rng)), exact.call(fn, [x]) * s, dims)
        if form < 0.16:
            # a cast inside the expression: the operand is the same quantity, spelled in another unit of its dimension
            f2 = V.factors_for_dims(rng, dims)
            if f2:
                return ("lit", "(%s %s to %s)" % (xs, G.text(f, rng), G.text(f2, rng)), x * s, dims)
        return ("lit", "%s %s" % (xs, G.text(f, rng)), x * s, dims)
    r = rng.random()
    if rng.random() < 0.03:
        # two whole SI values whose product straddles 2^63 / 2^64 / 2^127 / 2^128, on conversion-free units or with the
        # magnitude carried by an SI prefix (15 Em * 14 Em): fixed-width fast paths in the value arithmetic (seed C04-c)
        a, b = boundary.big_pair(rng)
        leaves = []
        for x in (a, b):
            e = rng.choice(V.single_dim[rng.choice(sorted(V.single_dim))]) if rng.random() < 0.7 else None
            if e is not None and V.scale[e["key"]] != 1:
                e = None
            if e is None:
                leaves.append(("lit", str(x), F(x), R.ZERO_DIMS))
            else:
                leaves.append(("lit", "%d %s" % (x, e["word"]), F(x) * F(10) ** e["prefix"], e["dims"]))
        return ("bin", rng.choice("**/"), leaves[0], leaves[1])
    if rng.random() < 0.04:
        # the SAME unit in two to four operands, so that its power accumulates beyond what one literal carries (au^-2 * au^-2 * ...,
        # ft^3 / ft^-3): both groupings of the chain occur (seed C13-e)
        e = V.pick(rng)
        leaves = []
        for _ in range(rng.randint(2, 4)):
            fs = [(e, rng.choice([-3, -2, -2, -1, 1, 2, 3]))]
            if rng.random() < 0.4:
                o = V.pick(rng)
                if o["key"] != e["key"]:
                    fs.append((o, rng.choice([1, -1])))
            s, dims = V.factors_si(fs)
            xs, x = mag(rng)
            leaves.append(("lit", "%s %s" % (xs, G.text(fs, rng)), x * s, dims))
        sign = rng.choice(["*", "*", "/"])
        if rng.random() < 0.5:
            t = leaves[0]
            for l in leaves[1:]:
                t = ("bin", sign if rng.random() < 0.7 else "*", t, l)
        else:
            t = leaves[-1]
            for l in reversed(leaves[:-1]):
                t = ("bin", sign if rng.random() < 0.7 else "*", l, t)
        return t
    if rng.random() < 0.04 and getattr(V, "confusable", None):
        # the same letters once as two blank-separated unit words and once glued into one word that means something else
        # (2 m N / 4 mN, 3 ms * 2 m s), both orders: a memo of unit texts keyed without their blanks confuses them (seed C04-h)
        a, b, ab = rng.choice(V.confusable)
        l = []
        for fs, txt in (([(a, 1), (b, 1)], "%s %s" % (a["word"], b["word"])), ([(ab, 1)], ab["word"])):
            sv, dims = V.factors_si(fs)
            xs, x = mag(rng)
            l.append(("lit", "%s %s" % (xs, txt), x * sv, dims))
        if rng.random() < 0.5:
            l.reverse()
        return ("bin", rng.choice("**/"), l[0], l[1])
    if rng.random() < 0.06 and getattr(V, "shared_pool", None):
        # both operands spell the SAME prefixed base unit (ms, km, g ...), each next to a derived unit and / or a bare base unit of the
        # mechanical family (1 m/ms / 1 N ms, 1 s/km * 1 J/km): what the derived units leave behind when they are taken apart meets
        # the shared unit again (seed C11-j: a merge that never drops an entry whose power reaches zero)
        sh, derived_, bare_ = V.shared_pool
        e_sh = rng.choice(sh)
        leaves = []
        for _k in range(2):
            fs = [(e_sh, rng.choice([1, 1, -1, -1, 2, -2]))]
            for e in rng.sample(derived_ + bare_ + bare_, rng.choice([1, 1, 2])):
                if e["key"] != e_sh["key"] and all(e["key"] != x["key"] for x, _ in fs):
                    fs.append((e, rng.choice([1, 1, -1])))
            sv, dims = V.factors_si(fs)
            xs, x = mag(rng)
            leaves.append(("lit", "%s %s" % (xs, G.text(fs, rng)), x * sv, dims))
        return ("bin", rng.choice("**//"), leaves[0], leaves[1])
    if rng.random() < 0.05:
        # two operands that share a unit NAME under different prefixes (500 g/lb * 2 lb/kg, 254 cm/in / 1 in/m); in half of the
        # cases each operand is a ratio whose dimensions cancel inside the operand (seed C04-d)
        ks = [k for k, es in V.by_key.items() if len({e["prefix"] for e in es}) > 1 and not es[0]["offset"]]
        k = rng.choice(ks)
        e1, e2 = rng.sample([e for e in V.by_key[k]], 2)
        if e1["prefix"] == e2["prefix"]:
            e2 = rng.choice([e for e in V.by_key[k] if e["prefix"] != e1["prefix"]])
        leaves = []
        ratio = rng.random() < 0.5
        for e, sgn in ((e1, rng.choice([1, -1])), (e2, rng.choice([1, -1]))):
            pw = sgn * rng.choice([1, 1, 2])
            fs = [(e, pw)]
            if ratio:
                same = [z for z in V.by_dims[e["dims"]] if z["key"] != e["key"]]
                if same:
                    fs.append((rng.choice(same), -pw))
            elif rng.random() < 0.5:
                o = V.pick(rng)
                if o["key"] != e["key"]:
                    fs.append((o, rng.choice([1, -1])))
            s, dims = V.factors_si(fs)
            xs, x = mag(rng)
            leaves.append(("lit", "%s %s" % (xs, G.text(fs, rng)), x * s, dims))
        return ("bin", rng.choice("**/"), leaves[0], leaves[1])
    if r < 0.25:
        n = rng.choice([-3, -2, -1, 0, 0, 1, 2, 2, 3])
        return ("bin", "^", gen(rng, V, depth - 1, pools), ("lit", str(n), F(n), None))
    return ("bin", rng.choice("**/"), gen(rng, V, depth - 1, pools), gen(rng, V, depth - 1, pools))

def shard(p):
    acc = Acc()
    rng = rng_for(p["seed"], PID, p["shard"])
    # every fourth shard evaluates with a logger installed at trace level (RUST_LOG): enabling logging must not change any result.
    # (The vocabulary - which words mean what, measured scales - comes from a plain driver: a fault that logging switches on must not
    # also shift the yardstick.)
    log_env = {"RUST_LOG": "anything=trace"} if p["shard"] % 4 == 3 else None
    d = Driver(p["bin"], env=log_env)
    try:
        if log_env:
            acc.context = {"trace_logging": True}
            acc.count("shards_with_trace_logging_enabled")
            with Driver(p["bin"]) as d_plain:
                V = G.Vocab(d_plain)
        else:
            V = G.Vocab(d)
        V.confusable = G.confusables(V)
        V.shared_pool = ([e for e in V.entries if e["unit"] in ("Meter", "Second", "Gram") and e["prefix"] != 0 and len(e["word"]) <= 2],
                         [e for e in V.entries if e["bare"] and e["unit"] in ("Newton", "Joule", "Watt", "Pascal", "Farad", "Litre", "Acre", "Hertz", "Volt")],
                         [e for e in V.entries if e["bare"] and e["word"] in ("m", "s", "kg")])
        if not all(V.shared_pool):
            V.shared_pool = None
        mech = [e for e in V.entries if e["unit"] in ("Newton", "Joule", "Watt", "Pascal", "Gram", "Meter", "Second", "Acceleration", "Velocity", "Gforce", "Btu", "Electronvolt")]
        elec = [e for e in V.entries if e["unit"] in ("Volt", "Ohm", "Siemens", "Farad", "Henry", "Weber", "Tesla", "Coulomb", "Ampere", "Watt", "Second", "Meter", "Gram")]
        pools = [None, None, mech, elec]
        cases = []
        # look-alikes: different units that PRINT the same (g = gram / g-force, Pa = pascal / peta-acceleration, min, ha, cc ...),
        # found by asking the tool how it displays every vocabulary word. The same product once with each of them, back to back on
        # one thread and inside one expression: anything keyed on the printed form of a unit confuses them (seed C04-e)
        dreps = d.call_many([{"op": "query", "q": "1 " + e["word"], "full": True} for e in V.entries], timeout=300)
        by_disp = {}
        for e, r in zip(V.entries, dreps):
            its = r.get("items") or []
            if len(its) == 1 and "ok" in its[0] and its[0]["ok"].get("disp"):
                by_disp.setdefault(its[0]["ok"]["disp"], {}).setdefault((e["key"], e["prefix"]), e)
        groups = [list(g.values()) for g in by_disp.values() if len(g) > 1]
        acc.seen("lookalike_groups", tuple(sorted(k for k, g in by_disp.items() if len(g) > 1)))
        for _ in range(p["n"] // 40 if groups else 0):
            e1, e2 = rng.sample(rng.choice(groups), 2)
            o = V.pick(rng)
            if o["key"] in (e1["key"], e2["key"]):
                continue
            xs, x = mag(rng)
            ys, y = mag(rng)
            pw = rng.choice([1, 1, 2, -1])
            op = rng.choice("**/")
            def prod(e):
                s1, d1 = V.factors_si([(e, pw)])
                s2, d2 = V.factors_si([(o, 1)])
                ut = e["word"] if pw == 1 else "%s^%d" % (e["word"], pw)
                a = ("lit", "%s %s" % (xs, ut), x * s1, d1)
                b = ("lit", "%s %s" % (ys, o["word"]), y * s2, d2)
                return ("bin", op, a, b) if rng.random() < 0.5 or op == "/" else ("bin", op, b, a)
            t1, t2 = prod(e1), prod(e2)
            for t in (t1, t2, ("bin", "/", t1, t2), t2, t1):
                try:
                    want = model(t)
                except Zero:
                    want = "zero"
                cases.append((t, want))
        for _ in range(p["n"]):
            t = gen(rng, V, rng.randint(1, p["depth"]), pools)
            if t[0] == "lit":
                continue
            try:
                want = model(t)
            except Zero:
                want = "zero"
            cases.append((t, want))
            # (q)^n == q*q*...*q
            if t[1] == "^" and t[3][2] not in (0,) and abs(int(t[3][2])) <= 3 and want != "zero":
                n = int(t[3][2])
                rep_ = t[2]
                prod = rep_
                for _ in range(abs(n) - 1):
                    prod = ("bin", "*", prod, rep_)
                if n < 0:
                    prod = ("bin", "/", ("lit", "1", F(1), R.ZERO_DIMS), prod)
                cases.append((prod, want))
        # a quantity that comes out of a sum or a cast (not a literal), times or over a literal whose units cancel some of its units
        # EXACTLY (same names, no prefixes), and the result cast or added once more: (3 m/s + 2 m/s) * 10 s to m. Whatever a unit
        # remembers about itself from the sum has to be forgotten when the product changes it (seed C02-i: memoised base dimensions
        # survive an update that cancels a unit completely)
        base_words = [e for e in V.entries if e["bare"] and e["prefix"] == 0 and V.scale[e["key"]] == 1 and e["word"] in ("m", "s", "kg", "A", "K", "mol", "cd")]
        for _ in range(p["n"] // 25 if len(base_words) >= 3 else 0):
            es = rng.sample(base_words, rng.choice([2, 2, 3]))
            U = [(e, rng.choice([1, 1, -1, 2, -2])) for e in es]
            sU, dU = V.factors_si(U)
            ut = G.text(U, rng)
            x1, x2, y, z = (F(rng.randint(1, 99)) for _ in range(4))
            if rng.random() < 0.6:
                S = ("lit", "(%d %s + %d %s)" % (x1, ut, x2, ut), (x1 + x2) * sU, dU)
            else:
                S = ("lit", "(%d %s to %s)" % (x1, ut, ut), x1 * sU, dU)
            e, pw = rng.choice(U)
            op = rng.choice("*/")
            wp = -pw if op == "*" else pw
            sW, dW = V.factors_si([(e, wp)])
            W = ("lit", "%d %s" % (y, e["word"] if wp == 1 else "%s^%d" % (e["word"], wp)), y * sW, dW)
            P = ("bin", op, S, W)
            val, dims = model(P)
            rest = [(e2, p2) for e2, p2 in U if e2["key"] != e["key"]]
            ptext = c06.layout(c06.tokens(P, "min"), rng, "single", units=True)
            ttext = G.text(rest, rng)
            sT, _dT = V.factors_si(rest)
            r_ = rng.random()
            if r_ < 0.4:
                full, v2 = "(%s to %s)" % (ptext, ttext), val
            elif r_ < 0.7:
                full, v2 = "(%s + %d %s)" % (ptext, z, ttext), val + z * sT
            else:
                full, v2 = "(%d %s - %s)" % (z, ttext, ptext), z * sT - val
            t = ("bin", "*", ("lit", full, v2, dims), ("lit", "1", F(1), R.ZERO_DIMS))
            cases.append((t, (v2, dims)))
            acc.count("sum_or_cast_times_cancelling_literal_then_cast_or_sum")
        reqs, meta = [], []
        for t, want in cases:
            style = rng.choice(["min", "min", "full"])
            q = c06.layout(c06.tokens(t, style), rng, "single", units=True)
            reqs.append({"op": "query", "q": q, "full": True})
            meta.append((t, want, q))
        for i in range(0, len(reqs), 3000):
            try:
                reps = d.call_many(reqs[i:i + 3000], timeout=300)
            except (DriverDied, DriverTimeout) as ex:
                acc.inconc("driver: %r" % (ex,))
                d.restart()
                continue
            for (t, want, q), rep in zip(meta[i:i + 3000], reps):
                acc.evaluations += 1
                ops = exact.ops_of(t)
                if len(ops) >= 2 and (any(c.isupper() for c in q) or any(px in q for px in ("k", "m", "µ"))):
                    acc.nontriv(q)
                case = {"query": q, "build": p["kind"], "expected": "division-by-zero error" if want == "zero" else [str(want[0]), G.si.fmt_dims(want[1])]}
                if "panic" in rep:
                    acc.violate("c04:panic:" + str(rep.get("panic_loc")), "%r panicked: %s" % (q, rep["panic"]), dict(case, observed=rep["panic"]))
                    continue
                items = rep.get("items") or []
                case["observed"] = items
                oks = [it for it in items if "ok" in it]
                if want == "zero":
                    acc.count("division_by_zero_cases")
                    if oks or not items:
                        acc.violate("c04:zero-division-yields-number", "%r divides by a zero quantity but gave %s" % (q, [o["ok"]["v"] for o in oks]), case)
                    continue
                if len(items) != 1 or not oks:
                    acc.violate("c04:rejected:" + "".join(sorted(set(ops))), "%r is defined (%s [%s]) but gave %s" % (q, want[0], G.si.fmt_dims(want[1]), [it.get("err", {}).get("msg") for it in items]), case)
                    continue
                try:
                    gv, gd = V.norm_item(oks[0])
                except G.si.OffsetUnit:
                    acc.inconc("offset unit in result of %r" % q)
                    continue
                for part in oks[0]["ok"]["u"]:
                    if part[0].startswith("D:"):
                        acc.seen("derived_units_displayed", part[0])
                if gd != want[1]:
                    acc.violate("c04:wrong-dimension:" + "".join(sorted(set(ops))), "%r has dimension %s, expected %s" % (q, G.si.fmt_dims(gd), G.si.fmt_dims(want[1])), case)
                elif gv != want[0]:
                    acc.violate("c04:wrong-value:" + "".join(sorted(set(ops))), "%r is %s in SI units, expected %s (result shown as %s %s)" % (q, gv, want[0], oks[0]["ok"].get("v12"), oks[0]["ok"].get("disp")), case)
                else:
                    acc.sample({"query": q, "si_value": str(gv), "dims": G.si.fmt_dims(gd), "shown_as": "%s %s" % (oks[0]["ok"].get("v12"), oks[0]["ok"].get("disp"))}, cap=1)
        # several expressions in one query string: each gives what it gives alone (core/multi.py)
        _qs = [r["q"] for r in reqs if len(r["q"]) < 300]
        multi.stage(acc, d, rng.sample(_qs, min(len(_qs), 300)), rng, 200, PID, p.get("kind", "dbg"))
    finally:
        d.close()
    return acc

def run(tier, seed):
    t0 = time.time()
    bins = {k: build.build(k)["vdriver"] for k in ("dbg", "rel")}
    n, depth = (40000, 4) if tier == "quick" else (500000, 5)
    payloads = [{"seed": seed, "shard": i, "n": n // NCPU, "depth": depth, "bin": bins["dbg"], "kind": "dbg"} for i in range(NCPU)]
    payloads += [{"seed": seed, "shard": 100 + i, "n": n // NCPU // 4, "depth": depth, "bin": bins["rel"], "kind": "rel"} for i in range(NCPU)]     # release build: wrapping arithmetic
    acc = run_shards(shard, payloads)
    return finish(PID, tier, seed, "exploration", acc, RULE, t0,
                  assumptions=["unit scales are measured through `1 U to <base units>` (judged by C05); exponent vectors come from the frozen reference",
                               "debug-assertion build (the assertion that constructed units carry no zero power is part of what is watched) and, for a quarter of the workload, the release build"],
                  min_eval=1000)

def replay(path):
    v = json.load(open(path))
    c = v["case"]
    from core.driver import replay_env
    with Driver(build.build(c.get("build", "dbg"))["vdriver"], env=replay_env(c)) as d:
        print(json.dumps({"query": c["query"], "expected": c["expected"], "now": d.call({"op": "query", "q": c["query"], "full": True}).get("items")}, ensure_ascii=False))
    return 0
