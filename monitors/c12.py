"""C12 - lexing and parsing are lossless over the input text (in-process invariant monitor)."""
import json, re, time
from core import build
from core.driver import Driver
from core.run import Acc, finish, NCPU

PID = "C12"
ALPHABET = ["0", "1", "9", ".", "e", "E", "+", "-", "*", "/", "^", "%", ",", "(", ")", "{", "}", "'", "°",
            "m", "k", "s", "t", "o", "a", "K", "é", "π", "μ", "Ω", "…", " ", "\t", "\n", " ", "　",
            "_", ":", "\"", "x",
            # typographic look-alikes a tolerant lexer might start to accept: minus sign, multiplication and division signs, superscript
            # two, micro sign, fullwidth and Arabic-Indic digits, thin space
            "\u2212", "\u00d7", "\u00f7", "\u00b2", "\u00b5", "\uff11", "\u0661", "\u2009"]
# symbols with distinct lexer behaviour (one representative per lexer class / continuation role)
ALPHABET24 = ["0", "9", ".", "e", "+", "-", "*", "/", "^", "%", ",", "(", ")", "{", "}", "°", "m", "t", "o",
              "é", " ", "　", "_", "x"]
def utf8_classes():
    """Two characters per possible UTF-8 leading byte (0xC2..0xF4): the lowest and the highest code point that starts with it.
    A decoder (or a hand-written width table) that is wrong for ONE leading byte - 0xE0, whose second byte starts at 0xA0, 0xED,
    whose second byte ends at 0x9F, 0xF0 / 0xF4 - is wrong for a whole script (U+0800..U+0FFF: Devanagari ... Thai, seed C12-g)
    that no list of 'usual' multi-byte samples contains."""
    out = []
    for lead in range(0xC2, 0xF5):
        if lead < 0xE0:
            lo, hi = bytes([lead, 0x80]), bytes([lead, 0xBF])
        elif lead < 0xF0:
            lo = bytes([lead, 0xA0 if lead == 0xE0 else 0x80, 0x80])
            hi = bytes([lead, 0x9F if lead == 0xED else 0xBF, 0xBF])
        else:
            lo = bytes([lead, 0x90 if lead == 0xF0 else 0x80, 0x80, 0x80])
            hi = bytes([lead, 0x8F if lead == 0xF4 else 0xBF, 0xBF, 0xBF])
        out += [lo.decode("utf-8"), hi.decode("utf-8")]
    return out

ENC = utf8_classes()
# ... with a handful of ASCII symbols around them (number, word, blank, brackets, operator)
ALPHABET_ENC = ENC + ["1", ".", "m", " ", "(", ")", "{", "}", "+", "°"]

RULE = ("in-process monitor around the real Lexer and Parser::parse_root: lexer stops within len(s) tokens, every token "
        "non-empty, token ends on char boundaries and sum to len(s); the tree's leaves equal the token sequence and tile "
        "[0,len) exactly once in order; every inner node spans exactly its contiguous children. Exhaustive over all strings "
        "up to the stated length over the 48-symbol alphabet (and 24 class representatives one symbol longer), plus random "
        "longer strings, 30% of them pumped (prefix + pattern^k + middle + closing^k + suffix, patterns of 1-5 symbols or call/number/unit fragments, "
        "up to hundreds of repetitions). Inputs with ONE token of 2^8 .. 2^17 (+-1) bytes of each kind, alone and inside an expression. UTF-8 encoding classes: a second alphabet with the lowest and the highest code point of every possible leading byte "
        "0xC2..0xF4 (102 characters) plus ten ASCII symbols, exhaustive up to length 2 (3 in the thorough tier) and in random/pumped strings. Every fourth input is preceded, on the same thread, by str::parse::<Compound>, str::parse::<Rational> "
        "and Parser::parse_unit of the previous input (nothing may leak from one parse into the next). non-trivial = distinct (token-kind sequence, tree shape) classes observed - counted by hash inside the monitor")

def sig_of(what):
    w = re.sub(r"[0-9]+", "N", what)
    w = re.sub(r"`[^`]*`|\"[^\"]*\"", "S", w)
    return "c12:" + w[:80]

def run(tier, seed):
    t0 = time.time()
    acc = Acc()
    plans = []
    if tier == "quick":
        plans.append(("dbg", ALPHABET, [1, 2, 3, 4], None))
        plans.append(("rel", ALPHABET, [1, 2, 3, 4], {"min": 5, "max": 200, "count": 300000}))
        plans.append(("dbg", ALPHABET, [], {"min": 5, "max": 120, "count": 60000}))
        plans.append(("dbg", ALPHABET_ENC, [1, 2], {"min": 3, "max": 40, "count": 40000}))
        plans.append(("rel", ALPHABET_ENC, [1, 2], {"min": 3, "max": 120, "count": 100000}))
    else:
        plans.append(("dbg", ALPHABET, [1, 2, 3, 4], {"min": 5, "max": 200, "count": 500000}))
        plans.append(("rel", ALPHABET, [1, 2, 3, 4, 5], {"min": 6, "max": 400, "count": 4000000}))
        plans.append(("rel", ALPHABET24, [6], None))
        plans.append(("dbg", ALPHABET_ENC, [1, 2], {"min": 3, "max": 120, "count": 300000}))
        plans.append(("rel", ALPHABET_ENC, [1, 2, 3], {"min": 4, "max": 300, "count": 1000000}))
    complete = {}
    done_long = set()
    done_ops = set()
    done_runs = set()
    shapes = 0
    for kind, alpha, lens, rnd in plans:
        b = build.build(kind)["vdriver"]
        with Driver(b) as d:
            for L in lens:
                rep = d.call({"op": "c12_sweep", "alphabet": alpha, "len": L, "threads": NCPU}, timeout=3600)
                absorb(acc, rep, kind, "exhaustive len=%d over %d symbols" % (L, len(alpha)))
                complete["%s:len%d:%dsym" % (kind, L, len(alpha))] = rep["strings"]
                shapes = max(shapes, rep["distinct_tree_shapes"])
                acc.count("exhaustive_strings_" + kind, rep["strings"])
            if rnd:
                rep = d.call({"op": "c12_sweep", "alphabet": alpha, "threads": NCPU,
                              "random": dict(rnd, seed=seed * 7919 + len(lens))}, timeout=3600)
                absorb(acc, rep, kind, "random len %d..%d" % (rnd["min"], rnd["max"]))
                acc.count("random_strings_" + kind, rep["strings"])
                shapes += rep["distinct_tree_shapes"]
            # one very long token of each kind (digits, zeros, blanks, a word, garbage, a fraction) alone and inside an expression, with
            # lengths around 2^8, 2^12, 2^15, 2^16 and 2^17: a length kept in a narrower integer, or saturated, loses or mis-attributes
            # bytes only past that size (seeds C12-h, C06-h: token length stored as u16)
            if kind not in done_long:
                done_long.add(kind)
                long_n = 0
                for L in ([255, 256, 257, 4096, 65535, 65536, 65537, 70000] if kind == "dbg" else [32767, 32768, 65535, 65536, 65537, 131071, 131072, 131073, 200000]):
                    for tok in ("7" * L, "0" * L, " " * L, "a" * L, "#" * L, "1." + "3" * L, "\u00a0" * (L // 2), "é" * (L // 2 + 1)):
                        for s_ in (tok, "1 + " + tok + " * 2", "(2 m to " + tok + ") 5"):
                            r = d.call({"op": "lex", "s": s_, "brief": True}, timeout=600)
                            long_n += 1
                            acc.evaluations += 1
                            if "ok" not in r:
                                what = r.get("violation") or ("panic: %s" % r.get("panic"))
                                acc.violate(sig_of("long-token: " + str(what)), "%s [%s, one token of %d bytes]: input %r..." % (what, kind, L, s_[:40]),
                                            {"input": s_, "build": kind, "what": what})
                            else:
                                acc.seen("longest_token_bytes", r["ok"]["longest_token"])
                acc.count("inputs_with_one_very_long_token_" + kind, long_n)
            # every operator sequence of length 1..5 over {+ - * / ^ ** to} between simple operands (a unit after `to`, a number
            # elsewhere), spaced and tight: the grammar's operator stack sees every order of binding levels, `to` included
            # (seed C12-i: a fixed stack of three levels for four kinds of operator)
            if kind not in done_ops:
                done_ops.add(kind)
                import itertools
                opsq = 0
                OPS7 = ["+", "-", "*", "/", "^", "**", "to"]
                reqs_ = []
                for L in (1, 2, 3, 4, 5):
                    for seq in itertools.product(OPS7, repeat=L):
                        if L == 5 and (hash(seq) + seed) % 3:
                            continue          # a third of the longest ones per run
                        toks = ["1"]
                        for o in seq:
                            toks += [o, "m" if o == "to" else "2"]
                        reqs_.append(" ".join(toks))
                        if L <= 3:
                            reqs_.append("".join(t if t != "to" else " to " for t in toks))
                for i_ in range(0, len(reqs_), 4000):
                    for s_, r in zip(reqs_[i_:i_ + 4000], d.call_many([{"op": "lex", "s": x, "brief": True} for x in reqs_[i_:i_ + 4000]], timeout=600)):
                        opsq += 1
                        acc.evaluations += 1
                        if "ok" not in r:
                            what = r.get("violation") or ("panic: %s" % r.get("panic"))
                            acc.violate(sig_of("operator-sequence: " + str(what)), "%s [%s]: input %r" % (what, kind, s_), {"input": s_, "build": kind, "what": what})
                acc.count("operator_sequences_with_to_" + kind, opsq)
            # every run length 1..600 of a repeated token pattern (a unit product, blank-separated unit words, a chain of `/`, a
            # sentence of words, stray closing brackets, a chain of calls) in front of more arithmetic: counters of tokens, nodes or
            # checkpoints that wrap at 2^8 or 2^9 (seed C12-j: a u8 generation counter makes a checkpoint look fresh after exactly
            # 256 k tokens)
            if kind not in done_runs:
                done_runs.add(kind)
                runs_ = []
                for n_ in range(1, 601):
                    if kind == "dbg" and n_ % 2 == (seed % 2) and n_ not in (126, 127, 128, 254, 255, 256, 510, 511, 512):
                        continue
                    runs_ += ["1 m" + "*m" * n_ + " + 2 * 3", "1 m" + " m" * n_ + " * 2", "1 m" + "/s" * n_ + " to m", "a" + " b" * n_ + " * 2",
                              "1*2*)" + ")" * n_ + "3*4", "1 + " * n_ + "1", "round(" * min(n_, 300) + "1" + ")" * min(n_, 300)]
                nr = 0
                for i_ in range(0, len(runs_), 500):
                    for s_, r in zip(runs_[i_:i_ + 500], d.call_many([{"op": "lex", "s": x, "brief": True} for x in runs_[i_:i_ + 500]], timeout=900)):
                        nr += 1
                        acc.evaluations += 1
                        if "ok" not in r:
                            what = r.get("violation") or ("panic: %s" % r.get("panic"))
                            acc.violate(sig_of("run-length: " + str(what)), "%s [%s]: input %r... (%d bytes)" % (what, kind, s_[:30], len(s_)), {"input": s_, "build": kind, "what": what})
                acc.count("run_length_sweep_inputs_" + kind, nr)
            # a few concrete samples through the per-item op
            for s in ["1 + {a b}", "3 * (1 + 2) to m", "°C'x…", "1e+", "round(1.5 , 2 )"]:
                r = d.call({"op": "lex", "s": s})
                if kind == "dbg":
                    acc.sample({"input": s, "observed": r.get("ok") or r}, cap=5)
    if tier == "thorough":
        from core import sanit
        # AddressSanitizer (+ LeakSanitizer): all strings up to length 4, plus random long strings
        reqs = [{"op": "c12_sweep", "alphabet": ALPHABET, "len": L, "threads": NCPU} for L in (1, 2, 3, 4)]
        reqs.append({"op": "c12_sweep", "alphabet": ALPHABET, "threads": NCPU, "random": {"min": 5, "max": 300, "count": 200000, "seed": seed + 17}})
        try:
            reps, reports, code = sanit.asan_run(reqs)
            for rep in reps:
                absorb(acc, rep, "asan", "under AddressSanitizer")
                acc.count("asan_strings", rep.get("strings", 0))
            acc.counters["asan_reports"] = len(reports)
            for r in reports:
                who, frame = sanit.classify(r)
                if who == "anything":
                    acc.violate("c12:asan:" + str(frame), "AddressSanitizer report with a frame in the crate: " + r[:600], {"report": r[:4000]})
                else:
                    acc.count("asan_reports_in_dependencies_only")
            if code != 0 and not reports:
                acc.inconc("asan driver exited with %s without a report" % code)
        except Exception as ex:
            acc.inconc("asan run failed: %r" % (ex,))
        # Miri on the Db-free workload (lexer, parser/tree builder, number reader, formatter, unit words)
        try:
            runs = sanit.miri_run([seed * 1000 + i for i in range(16)], 40)
            for r in runs:
                if r["status"] != "exit":
                    acc.inconc("miri seed %s: %s" % (r["seed"], r["status"]))
                    continue
                sm = r.get("summary") or {}
                acc.count("miri_strings", sm.get("strings", 0))
                acc.count("miri_literals", sm.get("literals", 0))
                acc.count("miri_formatted", sm.get("formatted", 0))
                acc.evaluations += sm.get("strings", 0)
                for v in sm.get("violations", []):
                    acc.violate("c12:miri-monitor:" + v[:3], "under Miri: " + v[:400], {"what": v, "seed": r["seed"]})
                if r["ub"]:
                    who, frame = sanit.classify(r["stderr"])
                    if who == "anything":
                        acc.violate("c12:miri-ub:" + str(frame), "Miri reported undefined behaviour with a frame in the crate: " + r["stderr"][-800:], {"stderr": r["stderr"], "seed": r["seed"]})
                    else:
                        acc.count("miri_reports_in_dependencies_only")
                        acc.inconclusive_notes.append("miri report in a dependency (seed %s): %s" % (r["seed"], r["stderr"][-300:]))
                elif r["code"] != 0 and not sm.get("violations"):
                    acc.inconc("miri seed %s exited with %s: %s" % (r["seed"], r["code"], r["stderr"][-300:]))
        except Exception as ex:
            acc.inconc("miri run failed: %r" % (ex,))
    # distinct non-trivial = distinct tree-shape classes (hashes) - the monitor counts them
    acc.nontrivial = set(range(shapes))
    return finish(PID, tier, seed, "exploration", acc, RULE, t0,
                  assumptions=["syntree's node spans and walk order are as documented", "the 48 symbols cover the lexer's character classes (listed in DESIGN.md)"],
                  extra={"completed_exhaustive_spaces": complete, "alphabet": ALPHABET, "alphabet24": ALPHABET24,
                         "alphabet_utf8_classes": ["U+%04X" % ord(c) for c in ENC]},
                  exhaustive=True, min_eval=1000)

def absorb(acc, rep, kind, label):
    if "violation_count" not in rep:
        acc.inconc("%s %s: %r" % (kind, label, rep))
        return
    acc.evaluations += rep["strings"]
    acc.count("tokens_checked", rep["tokens"])
    acc.count("pumped_strings(prefix+pattern^k+middle+closing^k+suffix)", rep.get("pumped", 0))
    acc.count("inputs_preceded_by_unit_and_number_parses_of_the_previous_input", rep.get("interleaved", 0))
    acc.count("inner_nodes_checked", rep["inner_nodes"])
    acc.count("panics", rep["panics"])
    acc.seen("max_depth", rep["max_depth"])
    acc.counters["distinct_token_kind_sequences_max"] = max(acc.counters.get("distinct_token_kind_sequences_max", 0), rep["distinct_token_kind_sequences"])
    for v in rep["violations"]:
        acc.violate(sig_of(v["what"]), "%s [%s, %s]: input %r" % (v["what"], kind, label, v["input"]), {"input": v["input"], "build": kind, "what": v["what"]})
    extra = rep["violation_count"] - len(rep["violations"])
    acc.violation_count += max(0, extra)

def replay(path):
    v = json.load(open(path))
    c = v["case"]
    with Driver(build.build(c.get("build", "dbg"))["vdriver"]) as d:
        print(json.dumps(d.call({"op": "lex", "s": c["input"]}), ensure_ascii=False))
    return 0
