"""C09 - temperature scales convert by their defining affine formulas; offsets never leak into compounds."""
import itertools, json, time
from fractions import Fraction as F
from core import build, unitgen as G, units_ref as R
from core.driver import Driver, DriverDied, DriverTimeout
from core import multi
from core.run import Acc, finish, rng_for, run_shards, NCPU

PID = "C09"
SCALES = {"K": ["K", "kelvin", "kelvins"], "C": ["°C", "celsius"], "F": ["°F", "fahrenheit"]}
KEY = {"K": "Kelvin", "C": "D:de39ff06", "F": "D:3a824baa"}
SLOPE = {"K": F(1), "C": F(1), "F": F(5, 9)}
PFX = [("m", -3), ("k", 3), ("c", -2), ("d", -1), ("M", 6), ("n", -9), ("da", 1), ("h", 2)]
RULE = ("(a) every chain x S0 to S1 ... to Sn (n <= 4, all 9+27+81+243 shapes over kelvin/°C/°F incl. repeated scales, several spellings "
        "of each scale) must equal the defining affine formulas K = C + 273.15, C = (F - 32)*5/9 exactly, hence compose and invert; "
        "(b) conversions in which °C/°F appears squared, inverted or next to other units (x °C^2 to K^2, x m*°C to m*K, x K/s to °C/s, "
        "x s/°F to s/K, x °C*°F to K^2, ...) must be refused or equal the interval reading (factor 1 resp. 5/9 per degree, to the power) - "
        "an added zero-point offset is the violation. Magnitudes: integers, decimals to 30 digits, negatives, zero, the fixed points "
        "-40, 0, 32, 273.15, 459.67 and values next to them. non-trivial = distinct query with a chain of >=2 conversions or a compound unit")

def to_k(s, x):
    if s == "K":
        return x
    if s == "C":
        return x + F(27315, 100)
    return (x - 32) * F(5, 9) + F(27315, 100)

def from_k(s, k):
    if s == "K":
        return k
    if s == "C":
        return k - F(27315, 100)
    return (k - F(27315, 100)) * F(9, 5) + 32

def magnitude(rng):
    r = rng.random()
    if r < 0.3:
        base = rng.choice([F(-40), F(0), F(32), F(27315, 100), F(45967, 100), F(-27315, 100), F(-45967, 100), F(100), F(212)])
        v = base + rng.choice([0, 0, 1, -1]) * F(1, 10 ** rng.randint(0, 12))
    elif r < 0.6:
        v = F(rng.randint(-1000, 1000))
    else:
        k = rng.randint(0, 30)
        v = F(rng.randint(-10 ** (k + 2), 10 ** (k + 2)), 10 ** k)
    from c10 import dec_text
    return dec_text(v), v

def shard(p):
    acc = Acc()
    rng = rng_for(p["seed"], PID, p["shard"])
    d = Driver(p["bin"], env=p.get("env"))
    d_plain = Driver(p["bin"]) if p.get("env") else d
    try:
        V = G.Vocab(d_plain)
        nonk = [e for e in V.entries if e["dims"][4] == 0]
        VT = G.Vocab(d_plain, include_offset=True)
        prefixed = {sc: [e for e in VT.entries if e["key"] == KEY[sc] and not e["bare"]] for sc in "KCF"}
        reqs, meta = [], []
        # (a) chains
        for chain in p["chains"]:
            for _ in range(p["reps"]):
                xs, x = magnitude(rng)
                words = [rng.choice(SCALES[s]) for s in chain]
                # SI prefixes on the scales (C03: a prefix is exactly its power of ten): x m°C is x/1000 °C
                pes = [0] * len(chain)
                if rng.random() < 0.35:
                    for i in range(len(chain)):
                        if rng.random() < 0.6 and prefixed[chain[i]]:
                            e = rng.choice(prefixed[chain[i]])      # only words the tool itself reads as (this scale, this prefix)
                            words[i] = e["word"]
                            pes[i] = e["prefix"]
                q = "%s %s" % (xs, words[0]) + "".join(" to " + w for w in words[1:])
                want = from_k(chain[-1], to_k(chain[0], x * F(10) ** pes[0])) / F(10) ** pes[-1]
                reqs.append({"op": "query", "q": q})
                meta.append(("chain", q, (want, KEY[chain[-1]], pes[-1]), len(chain) - 1, "".join(chain) + ("+prefix" if any(pes) else "")))
        # (b) compounds
        for _ in range(p["n_compound"]):
            xs, x = magnitude(rng)
            form = rng.randint(0, 10)
            s1 = rng.choice("CF")
            s2 = rng.choice("KCF")
            if s1 == s2:
                s2 = "K"
            w1, w2 = rng.choice(SCALES[s1]), rng.choice(SCALES[s2])
            if rng.random() < 0.3:
                (s1, w1), (s2, w2) = (s2, w2), (s1, w1)     # also the direction *into* the offset scale
            SL1, SL2 = SLOPE[s1], SLOPE[s2]
            if rng.random() < 0.3:
                # the degree itself under an SI prefix inside the compound (J/m°C, k°F^2): as an interval it is the prefixed step
                # (seed C09-j: a per-degree component of the TARGET keeps its prefix out of the conversion)
                for which in (1, 2):
                    if rng.random() < 0.6:
                        sc = s1 if which == 1 else s2
                        alts = [e for e in VT.entries if e["unit"] == {"K": "Kelvin", "C": "Celsius", "F": "Fahrenheit"}[sc] and e["prefix"] != 0 and len(e["word"]) <= 4]
                        if alts:
                            e_ = rng.choice(alts)
                            if which == 1:
                                w1, SL1 = e_["word"], SLOPE[s1] * F(10) ** e_["prefix"]
                            else:
                                w2, SL2 = e_["word"], SLOPE[s2] * F(10) ** e_["prefix"]
            if form == 0:
                n = rng.choice([2, 3, -1, -2, -3])
                u1, u2 = "%s^%d" % (w1, n), "%s^%d" % (w2, n)
                factor = (SL1 / SL2) ** n
            elif form in (1, 2, 3):
                comp = V.rand_factors(rng, nmax=2 if form == 3 else 1, pool=nonk)
                ctext = G.text([(e, abs(pw)) for e, pw in comp])
                tgt = []
                for e, pw in comp:
                    e2 = rng.choice([z for z in V.by_dims[e["dims"]] if z["dims"][4] == 0])
                    tgt.append((e2, abs(pw)))
                ttext = G.text(tgt)
                cs, _ = V.factors_si([(e, abs(pw)) for e, pw in comp])
                ts, _ = V.factors_si(tgt)
                if len({e["key"] for e, _ in tgt}) != len(tgt) or len({e["key"] for e, _ in comp}) != len(comp):
                    continue
                if form == 1:
                    u1, u2 = "%s*%s" % (ctext, w1), "%s*%s" % (ttext, w2)
                    factor = (cs / ts) * (SL1 / SL2)
                elif form == 2:
                    u1, u2 = "%s/%s" % (w1, ctext), "%s/%s" % (w2, ttext)
                    factor = (ts / cs) * (SL1 / SL2)
                else:
                    u1, u2 = "%s/%s" % (ctext, w1), "%s/%s" % (ttext, w2)
                    factor = (cs / ts) * (SL2 / SL1)
            elif form in (9, 10):
                # the SAME companion units, same prefix and power, on both sides (lb*°F to lb*°C, °F/acre to °C/acre), drawn from
                # the whole vocabulary: a shortcut that pairs up and skips what both sides share must not leave the scale looking
                # like a lone temperature (seed C09-d)
                comp = V.rand_factors(rng, nmax=form - 8, pool=nonk)
                if len({e["key"] for e, _ in comp}) != len(comp):
                    continue
                ctext = G.text(comp, rng)
                if "/" in ctext:
                    continue
                sep = rng.choice(["*", " "])
                if rng.random() < 0.5:
                    u1, u2 = ctext + sep + w1, ctext + sep + w2
                else:
                    u1, u2 = w1 + sep + ctext, w2 + sep + ctext
                factor = SL1 / SL2
            elif form in (6, 7, 8):
                # companions whose dimensions cancel (min/s, ft/in, Hz*s ...): the compound as a whole has the dimension of a
                # temperature, but it is not a lone scale - the zero point must not be added (seed C09-c)
                ea = V.pick(rng, nonk)
                same = [z for z in V.by_dims[ea["dims"]] if z["key"] != ea["key"] and z["dims"][4] == 0]
                if not same:
                    continue
                eb = rng.choice(same)
                if rng.random() < 0.35:
                    # ... or the SAME unit under two prefixes (km/m, mg/kg): a tool may refuse the mix; if it accepts it, the ratio is a
                    # power of ten and the compound is still no lone scale (seed C09-h: the pair cancels silently to 1)
                    alts = [z for z in V.by_key[ea["key"]] if z["prefix"] != ea["prefix"]]
                    if alts:
                        eb = rng.choice(alts)
                ratio = V.factors_si([(ea, 1)])[0] / V.factors_si([(eb, 1)])[0]
                if form == 6:
                    u1, u2 = rng.choice(["%s*%s/%s", "%s/%s*%s"]) , w2
                    if u1 == "%s*%s/%s":
                        u1, factor = u1 % (w1, ea["word"], eb["word"]), ratio * SL1 / SL2
                    else:
                        # `/` inverts everything after it: w1 / (eb * ea^-1) is spelled with a negative power
                        u1, factor = "%s*%s*%s^-1" % (ea["word"], w1, eb["word"]), ratio * SL1 / SL2
                elif form == 7:
                    u1, u2 = w1, "%s*%s/%s" % (w2, ea["word"], eb["word"])
                    factor = SL1 / SL2 / ratio
                else:
                    if s1 == "K":
                        continue
                    u1, u2 = rng.choice(["K*K/%s" % w1, "K^2/%s" % w1, "K^2*%s^-1" % w1]), w2
                    factor = F(1) / SL1 / SL2
            elif form == 4:
                u1, u2 = "°C*°F", rng.choice(["K^2", "K*°C", "°F*K"])
                factor = F(5, 9) / {"K^2": F(1), "K*°C": F(1), "°F*K": F(5, 9)}[u2]
            else:
                u1, u2 = "%s^-1" % w1, "%s^-1" % w2
                factor = SL2 / SL1
            q = "%s %s to %s" % (xs, u1, u2)
            reqs.append({"op": "query", "q": q})
            meta.append(("compound", q, x * factor, 2, "form%d" % form))
        for i in range(0, len(reqs), 3000):
            try:
                reps = d.call_many(reqs[i:i + 3000], timeout=300)
            except (DriverDied, DriverTimeout) as ex:
                acc.inconc("driver: %r" % (ex,))
                d.restart()
                continue
            for (kind, q, want, weight, tag), rep in zip(meta[i:i + 3000], reps):
                acc.evaluations += 1
                if weight >= 2:
                    acc.nontriv(q)
                case = {"query": q, "build": p["kind"], "expected": str(want[0] if kind == "chain" else want)}
                if "panic" in rep:
                    acc.violate("c09:panic:" + str(rep.get("panic_loc")), "%r panicked: %s" % (q, rep["panic"]), dict(case, observed=rep["panic"]))
                    continue
                items = rep.get("items") or []
                case["observed"] = items
                oks = [it for it in items if "ok" in it]
                if kind == "chain":
                    acc.count("chains_len_%d" % weight)
                    acc.seen("chain_shapes", tag)
                    if tag.endswith("+prefix"):
                        acc.count("chains_with_prefixed_scales")
                    if len(items) != 1 or not oks:
                        acc.violate("c09:chain-rejected:" + tag[:2] + ("+prefix" if tag.endswith("+prefix") else ""), "%r gave %s" % (q, [it.get("err", {}).get("msg") for it in items]), case)
                        continue
                    got = G.si.frac(oks[0]["ok"]["v"])
                    parts = oks[0]["ok"]["u"]
                    if got != want[0]:
                        acc.violate("c09:chain-wrong:%s>%s%s" % (tag[0], tag.replace("+prefix", "")[-1], "+prefix" if tag.endswith("+prefix") else ""), "%r is %s, the defining formulas give %s" % (q, got, want[0]), case)
                    elif parts != [[want[1], 1, want[2]]]:
                        acc.violate("c09:chain-unit", "%r came back in %s" % (q, parts), case)
                    else:
                        acc.sample({"query": q, "value": str(got)}, cap=1)
                else:
                    acc.count("compound_" + tag)
                    if not oks:
                        acc.count("compound_refused")
                        continue
                    acc.count("compound_converted")
                    got = G.si.frac(oks[0]["ok"]["v"])
                    if len(items) != 1 or got != want:
                        acc.violate("c09:offset-in-compound:" + tag, "%r is %s; treating the degree as an interval gives %s - a zero-point offset (or something else) was added" % (q, got, want), case)
                    else:
                        acc.sample({"query": q, "value": str(got), "reading": "interval"}, cap=1)
        # several expressions in one query string: each gives what it gives alone (core/multi.py)
        _qs = [r["q"] for r in reqs if len(r["q"]) < 300]
        multi.stage(acc, d, rng.sample(_qs, min(len(_qs), 300)), rng, 200, PID, p.get("kind", "dbg"))
    finally:
        d.close()
        if d_plain is not d:
            d_plain.close()
    return acc

def run(tier, seed):
    t0 = time.time()
    bins = {k: build.build(k)["vdriver"] for k in ("dbg", "rel")}
    chains = ["".join(c) for n in range(2, 6) for c in itertools.product("KCF", repeat=n)]
    reps, ncomp = (6, 18000) if tier == "quick" else (60, 300000)
    payloads = [{"seed": seed, "shard": i, "chains": chains[i::NCPU], "reps": reps, "n_compound": ncomp // NCPU, "bin": bins["dbg"], "kind": "dbg"} for i in range(NCPU)]
    payloads += [{"seed": seed, "shard": 100 + i, "chains": chains[i::NCPU], "reps": 10 if tier == "thorough" else 1, "n_compound": ncomp // NCPU // 5, "bin": bins["rel"], "kind": "rel",
                  "env": {"RUST_LOG": "anything=trace"} if i % 2 else None} for i in range(NCPU)]
    acc = run_shards(shard, payloads)
    return finish(PID, tier, seed, "exploration", acc, RULE, t0,
                  assumptions=["K = C + 273.15 and C = (F - 32) * 5/9 are the defining formulas", "a refused compound conversion is allowed by the property"],
                  extra={"chain_shapes_total": len(chains)}, exhaustive=True, min_eval=500)

def replay(path):
    v = json.load(open(path))
    c = v["case"]
    with Driver(build.build(c.get("build", "dbg"))["vdriver"]) as d:
        print(json.dumps({"query": c["query"], "expected": c["expected"], "now": d.call({"op": "query", "q": c["query"]}).get("items")}, ensure_ascii=False))
    return 0
