"""C03 - unit conversion preserves the physical quantity (metamorphic laws, all exact)."""
import json, time
from fractions import Fraction as F
from core import build, unitgen as G, units_ref as R
from core.driver import Driver, DriverDied, DriverTimeout
from core.run import Acc, finish, rng_for, run_shards, NCPU
from c02 import mag

PID = "C03"
RULE = ("exact metamorphic laws of `to` over commensurable non-offset unit expressions: round trip x U1 to U2 to U1 = x; detour "
        "x U1 to U3 to U2 = x U1 to U2; homogeneity (k*x) U1 to U2 = k*(x U1 to U2); prefix: 1 pU to U = 10^p for every accepted prefix "
        "spelling of every unit (exhaustive over the vocabulary); power: 1 U1^n to U2^n = (1 U1 to U2)^n for n in -3..3; product/quotient "
        "of up to four units converts by the product/quotient of the factors; and x U1 to U2 = x*s(U1)/s(U2) with s measured by "
        "`1 U to <base units>`; pairs: every ordered pair of units as quotient and product converted to the base-unit spelling of its dimension. Every documented unit occurs as source and as target inside its dimension class; provenance: every typeable shipped fact (a quantity whose unit was decoded from stored data, many in prefixed units) converted to the base-unit spelling and to a random spelling of its dimension equals its looked-up value times the scales. "
        "non-trivial = distinct conversion whose source or target is prefixed, powered or compound")

def one_value(rep):
    items = rep.get("items") or []
    if "panic" in rep:
        return None, "panic: %s" % rep["panic"]
    if len(items) != 1 or "ok" not in items[0]:
        return None, "gave %s" % [it.get("err", {}).get("msg", it) for it in items]
    return (G.si.frac(items[0]["ok"]["v"]), sorted(items[0]["ok"]["u"])), None

def shard(p):
    acc = Acc()
    rng = rng_for(p["seed"], PID, p["shard"])
    d = Driver(p["bin"], env=p.get("env"))
    try:
        if p.get("env"):
            # the vocabulary (which words mean what, and the measured scales) is taken from a driver WITHOUT the special
            # environment: a fault that the environment switches on must not also shift the yardstick
            with Driver(p["bin"]) as d0:
                V = G.Vocab(d0)
        else:
            V = G.Vocab(d)
        classes = {}
        for e in V.entries:
            classes.setdefault(e["dims"], []).append(e)
        checks = []    # (law, [queries], judge(values)->None|str)

        def conv(fs, ft, x="1"):
            return "%s %s to %s" % (x, G.text(fs, rng), G.text(ft, rng))

        # exhaustive parts are split over the shards by index
        k = 0
        for e in V.entries:
            k += 1
            if k % p["nshards"] != p["shard"] % p["nshards"]:
                continue
            if not e["bare"]:
                bare = [b for b in V.by_key[e["key"]] if b["bare"]]
                if bare:
                    b = bare[0]
                    want = F(10) ** (e["prefix"] - b["prefix"])
                    checks.append(("prefix", ["1 %s to %s" % (e["word"], b["word"])], (lambda vs, want=want: None if vs[0][0] == want else "is %s, the prefix is exactly %s" % (vs[0][0], want))))
            # every word as source and as target within its class
            other = rng.choice(classes[e["dims"]])
            xs, x = mag(rng)
            want = x * V.scale[e["key"]] * F(10) ** e["prefix"] / (V.scale[other["key"]] * F(10) ** other["prefix"])
            checks.append(("absolute", ["%s %s to %s" % (xs, e["word"], other["word"])], (lambda vs, want=want: None if vs[0][0] == want else "is %s, the scales give %s" % (vs[0][0], want))))
            want2 = x / want * x if want else None
            checks.append(("absolute", ["%s %s to %s" % (xs, other["word"], e["word"])],
                           (lambda vs, x=x, e=e, other=other: None if vs[0][0] == x * V.scale[other["key"]] * F(10) ** other["prefix"] / (V.scale[e["key"]] * F(10) ** e["prefix"]) else "is %s" % (vs[0][0],))))
        # pairwise interaction sweep: every ordered pair of units (one bare word per unit, plus kg) as quotient and as product,
        # converted to the base-unit spelling of its dimension (thorough: also to a random other spelling and with prefixes).
        # A special case keyed on ONE unit in the source and ONE kind of target (N/g to m/s^2, seed C03-c) is a 2-way
        # interaction: random compounds of up to four of ~90 units almost never draw it, the matrix always does.
        per_key = {}
        for e in V.entries:
            if e["bare"] and (e["key"] not in per_key or len(e["word"]) < len(per_key[e["key"]]["word"])):
                per_key[e["key"]] = e
        words = sorted(per_key.values(), key=lambda e: e["word"]) + [e for e in V.entries if e["word"] == "kg"]
        pairs = [(a, b) for a in words for b in words if a["key"] != b["key"]]
        for (a, b) in pairs[p["shard"] % p["nshards"]::p["nshards"]]:
            for pw in (-1, 1):
                fs = [(a, 1), (b, pw)]
                sv, dims = V.factors_si(fs)
                tgt = G.base_expr(dims)
                if tgt is None:
                    continue
                src = "%s%s%s" % (a["word"], "/" if pw < 0 else "*", b["word"])
                checks.append(("pairs", ["1 %s to %s" % (src, tgt)], (lambda vs, want=sv: None if vs[0][0] == want else "is %s, the scales of the two units give %s" % (vs[0][0], want))))
                if p.get("thorough"):
                    f2 = V.factors_for_dims(rng, dims)
                    if f2:
                        s2, _ = V.factors_si(f2)
                        ea = rng.choice(V.by_key[a["key"]])
                        fs2 = [(ea, 1), (b, pw)]
                        sv2, _ = V.factors_si(fs2)
                        checks.append(("pairs", ["1 %s to %s" % (G.text(fs2), G.text(f2, rng))], (lambda vs, want=sv2 / s2: None if vs[0][0] == want else "is %s, the scales give %s" % (vs[0][0], want))))
        # extreme but allowed: three or four units, each under one of the largest / smallest prefixes and at power +-3, all pulling
        # the same way (10^288 between source and target): tables and clamps for powers of ten (seed C03-f)
        big = [e for e in V.entries if abs(e["prefix"]) >= 15]
        for _ in range(p["n"] // 60 if big else 0):
            sg = rng.choice([1, -1])
            fs, keys = [], set()
            for _k in range(rng.choice([3, 4, 4])):
                e = rng.choice(big)
                if e["key"] in keys or (e["prefix"] > 0) != (big[0]["prefix"] > 0 if False else e["prefix"] > 0):
                    continue
                keys.add(e["key"])
                fs.append((e, 3 * sg * (1 if e["prefix"] > 0 else -1)))
            if len(fs) < 3:
                continue
            tgt = []
            for e, pw in fs:
                bares = [b for b in V.by_key[e["key"]] if b["bare"]]
                if not bares:
                    break
                tgt.append((bares[0], pw))
            if len(tgt) != len(fs):
                continue
            s1, _d = V.factors_si(fs)
            s2, _d = V.factors_si(tgt)
            want = s1 / s2
            checks.append(("absolute", ["1 %s to %s" % (G.text(fs), G.text(tgt))], (lambda vs, want=want: None if vs[0][0] == want else "is %s, the prefixes give %s" % (vs[0][0], want))))
            checks.append(("absolute", ["1 %s to %s" % (G.text(tgt), G.text(fs))], (lambda vs, want=want: None if vs[0][0] == 1 / want else "is %s, the prefixes give %s" % (vs[0][0], 1 / want))))
        for _ in range(p["n"]):
            f1 = V.rand_factors(rng, nmax=rng.choice([1, 1, 2, 3, 4]))
            s1, dims = V.factors_si(f1)
            f2 = V.factors_for_dims(rng, dims)
            f3 = V.factors_for_dims(rng, dims)
            if not f2 or not f3:
                continue
            s2, _ = V.factors_si(f2)
            xs, x = mag(rng)
            t1, t2, t3 = G.text(f1, rng), G.text(f2, rng), G.text(f3, rng)
            law = rng.choice(["roundtrip", "detour", "homogeneity", "power", "product", "absolute"])
            if law == "roundtrip":
                checks.append((law, ["%s %s to %s to %s" % (xs, t1, t2, t1)],
                               (lambda vs, x=x, f1=f1: None if (vs[0][0] == x and vs[0][1] == V.factors_parts(f1)) else "is %s %s, expected the original %s in the original unit" % (vs[0][0], vs[0][1], x))))
            elif law == "detour":
                checks.append((law, ["%s %s to %s to %s" % (xs, t1, t3, t2), "%s %s to %s" % (xs, t1, t2)],
                               (lambda vs: None if vs[0] == vs[1] else "via the intermediate unit: %s, directly: %s" % (vs[0][0], vs[1][0]))))
            elif law == "homogeneity":
                kk = rng.randint(2, 97)
                xk = x * kk
                xks = str(xk.numerator) if xk.denominator == 1 else None
                if xks is None:
                    # spell k*x as a decimal: x has a power-of-ten denominator by construction
                    from c10 import dec_text
                    xks = dec_text(xk)
                checks.append((law, ["%s %s to %s" % (xks, t1, t2), "%s %s to %s" % (xs, t1, t2)],
                               (lambda vs, kk=kk: None if vs[0][0] == kk * vs[1][0] else "scaling the input by %d gave %s, %d times the unscaled result is %s" % (kk, vs[0][0], kk, kk * vs[1][0]))))
            elif law == "power":
                e1 = V.pick(rng)
                e2 = rng.choice(classes[e1["dims"]])
                n = rng.choice([-3, -2, -1, 2, 3, -3, -2, -1, 2, 3, 4, -4, 5, -5, 6, -7, 8, -12])      # mostly the stated -3..3, some beyond
                checks.append((law, ["1 %s^%d to %s^%d" % (e1["word"], n, e2["word"], n), "1 %s to %s" % (e1["word"], e2["word"])],
                               (lambda vs, n=n: None if vs[0][0] == vs[1][0] ** n else "is %s, the factor %s to the power %d is %s" % (vs[0][0], vs[1][0], n, vs[1][0] ** n))))
            elif law == "product":
                nf = rng.randint(2, 4)
                src, dst, keys = [], [], set()
                for _ in range(nf):
                    a = V.pick(rng)
                    b = rng.choice(classes[a["dims"]])
                    if a["key"] in keys or b["key"] in keys or a["key"] == b["key"]:
                        continue
                    keys |= {a["key"], b["key"]}
                    pw = rng.choice([1, 1, -1, 2, -2, 1, 1, -1, 2, -2, 3, -3, 4, -4, 5, -6])
                    src.append((a, pw)); dst.append((b, pw))
                if len(src) < 2:
                    continue
                qs = [conv(src, dst)] + ["1 %s to %s" % (a["word"], b["word"]) for (a, _), (b, _) in zip(src, dst)]
                pws = [pw for _, pw in src]
                def jp(vs, pws=pws):
                    want = F(1)
                    for v, pw in zip(vs[1:], pws):
                        want *= v[0] ** pw
                    return None if vs[0][0] == want else "is %s, the product of the individual factors is %s" % (vs[0][0], want)
                checks.append((law, qs, jp))
            else:
                want = x * s1 / s2
                checks.append((law, ["%s %s to %s" % (xs, t1, t2)], (lambda vs, want=want: None if vs[0][0] == want else "is %s, the scales give %s" % (vs[0][0], want))))
        # prefix x power grid, exhaustive: every prefix of one unit (rotating with seed and shard) at every power -64..64 converts to the
        # bare unit by exactly 10^(prefix x power); a table of powers of ten that is wrong in ONE slot (10^38 = hecto^19 = deca^38, seed
        # C05-h) is only met when the product prefix x power takes every value
        grid_keys = sorted(k for k, es in V.by_key.items() if len({e["prefix"] for e in es}) >= 15 and any(e["bare"] for e in es))
        if grid_keys:
            gk = grid_keys[(p["seed"] * 7 + p["shard"]) % len(grid_keys)]
            bare0 = [e for e in V.by_key[gk] if e["bare"]][0]
            seen_px = set()
            for e in V.by_key[gk]:
                if e["bare"] or e["prefix"] in seen_px:
                    continue
                seen_px.add(e["prefix"])
                for n in range(-64, 65):
                    if n == 0 or (n % p["nshards"]) != (p["shard"] % p["nshards"]) and abs(n) > 3:
                        continue
                    want = F(10) ** ((e["prefix"] - bare0["prefix"]) * n)
                    form = rng.random()
                    if form < 0.7 or abs(n) < 2:
                        q = "1 %s^%d to %s^%d" % (e["word"], n, bare0["word"], n)
                    elif form < 0.85:
                        k1 = rng.randint(1, abs(n) - 1) * (1 if n > 0 else -1)
                        q = "1 %s^%d*%s^%d to %s^%d" % (e["word"], k1, e["word"], n - k1, bare0["word"], n)
                    else:
                        q, want = "1 %s^%d to %s^%d" % (bare0["word"], n, e["word"], n), 1 / want
                    checks.append(("prefix-power-grid", [q], (lambda vs, want=want: None if vs[0][0] == want else "is %s, prefix times power gives %s" % (vs[0][0], want))))
        # one unit name at a power 2..6 against a product of two or more other units of its dimension at the same power, both directions
        # (1 c^3 to ft^3/min^3): conversion factors multiplied up in fixed-width accumulators overflow only when several non-SI factors
        # at powers of 3 and more meet (seed C13-j)
        for _ in range(p["n"] // 25):
            e1 = V.pick(rng)
            f2 = V.factors_for_dims(rng, e1["dims"], avoid=(e1["key"],))
            if not f2 or len(f2) < 2:
                continue
            n_ = rng.choice([2, 3, 3, 4, 4, 5, 6])
            s1_, _d = V.factors_si([(e1, n_)])
            f2n = [(e, pw * n_) for e, pw in f2]
            s2_, _d = V.factors_si(f2n)
            xs, x = mag(rng)
            if rng.random() < 0.5:
                q, want = "%s %s to %s^%d" % (xs, G.text(f2n, rng), e1["word"], n_), x * s2_ / s1_
            else:
                q, want = "%s %s^%d to %s" % (xs, e1["word"], n_, G.text(f2n, rng)), x * s1_ / s2_
            checks.append(("power-compound", [q], (lambda vs, want=want: None if vs[0][0] == want else "is %s, the scales give %s" % (vs[0][0], want))))
        # confusable spellings with the SAME dimension (c h = light-hour | ch = chain, m in | min ...): converting one into the other in
        # one query is an ordinary conversion between two different units (seed C03-h: unit texts remembered without their blanks)
        conf = [(a, b, ab) for a, b, ab in G.confusables(V) if R.add_dims(a["dims"], b["dims"]) == ab["dims"]]
        for _ in range(min(len(conf) * 2, p["n"] // 20)):
            a, b, ab = rng.choice(conf)
            s_ab2, _d = V.factors_si([(a, 1), (b, 1)])
            s_ab1, _d = V.factors_si([(ab, 1)])
            xs, x = mag(rng)
            r_ = rng.random()
            if r_ < 0.3:
                q, want = "%s %s %s to %s" % (xs, a["word"], b["word"], ab["word"]), x * s_ab2 / s_ab1
            elif r_ < 0.6:
                q, want = "%s %s to %s %s" % (xs, ab["word"], a["word"], b["word"]), x * s_ab1 / s_ab2
            elif r_ < 0.8:
                # both spellings as cast TARGETS in one chain (a memo of targets keyed without blanks, seed C09-i)
                q, want = "%s %s to %s %s to %s" % (xs, ab["word"], a["word"], b["word"], ab["word"]), x
            else:
                q, want = "%s %s %s to %s to %s %s" % (xs, a["word"], b["word"], ab["word"], a["word"], b["word"]), x
            checks.append(("confusable", [q], (lambda vs, want=want: None if vs[0][0] == want else "is %s, the scales of the two spellings give %s" % (vs[0][0], want))))
        # provenance: a quantity that was not typed in but looked up (its unit comes out of the stored data, not out of the unit
        # parser) or computed converts like the literal of the same value and unit (seed C03-g: a field of the unit that only the
        # constructors maintain). value and unit are taken from the phrase evaluated on its own.
        phrases = [" ".join(f["tokens"]) for f in p.get("facts", [])]
        if phrases:
            try:
                preps = d.call_many([{"op": "query", "q": ph} for ph in phrases], timeout=300)
            except (DriverDied, DriverTimeout) as ex:
                acc.inconc("driver: %r" % (ex,))
                preps = []
            for ph, rep in zip(phrases, preps):
                v, err = one_value(rep)
                if err or not v[1]:
                    continue
                try:
                    si_v, dims = V.normalise(v[0], rep["items"][0]["ok"]["u"])
                except Exception:
                    continue
                acc.count("looked_up_sources")
                if any(pt[2] for pt in rep["items"][0]["ok"]["u"]):
                    acc.count("looked_up_sources_stored_in_a_prefixed_unit")
                for _k in range(2):
                    ft = V.factors_for_dims(rng, dims) if _k else None
                    tt = G.text(ft, rng) if ft else G.base_expr(dims)
                    if tt is None:
                        continue
                    st = V.factors_si(ft)[0] if ft else F(1)
                    form = rng.choice(["%s to %s", "(%s) to %s", "%s * 1 to %s", "1 * %s to %s", "%s to %s to %s"])
                    if form.count("%s") == 3:
                        f3 = V.factors_for_dims(rng, dims)
                        if not f3:
                            continue
                        q = form % (ph, G.text(f3, rng), tt)
                    else:
                        q = form % (ph, tt)
                    checks.append(("provenance", [q], (lambda vs, want=si_v / st: None if vs[0][0] == want else "is %s, the looked-up value and the scales give %s" % (vs[0][0], want))))
        reqs = [{"op": "query", "q": q} for _, qs, _ in checks for q in qs]
        reps = []
        for i in range(0, len(reqs), 4000):
            try:
                reps += d.call_many(reqs[i:i + 4000], timeout=300)
            except (DriverDied, DriverTimeout) as ex:
                acc.inconc("driver: %r" % (ex,))
                return acc
        pos = 0
        for law, qs, judge in checks:
            rs = reps[pos:pos + len(qs)]
            pos += len(qs)
            acc.evaluations += 1
            acc.count("law_" + law)
            if law != "absolute" or any(c in qs[0] for c in "*/^") or not any(e["bare"] and (" " + e["word"] + " ") in (" " + qs[0] + " ") for e in V.entries[:0]):
                if any(c in qs[0] for c in "*/^") or law in ("prefix", "power", "product", "pairs", "provenance", "confusable", "prefix-power-grid", "power-compound"):
                    acc.nontriv(qs[0])
            vals, bad = [], None
            for q, r in zip(qs, rs):
                v, err = one_value(r)
                if err:
                    bad = (q, err)
                    break
                vals.append(v)
            case = {"law": law, "queries": qs, "build": p["kind"]}
            if bad:
                acc.violate("c03:%s:rejected" % law, "%r %s although source and target are commensurable" % bad, dict(case, observed=bad[1]))
                continue
            w = judge(vals)
            if w:
                acc.violate("c03:%s:wrong" % law, "%s: %r %s" % (law, qs[0], w), dict(case, observed=[[str(v[0]), v[1]] for v in vals]))
            else:
                acc.sample({"law": law, "queries": qs, "values": [str(v[0]) for v in vals]}, cap=1)
    finally:
        d.close()
    return acc

def run(tier, seed):
    t0 = time.time()
    bins = {k: build.build(k)["vdriver"] for k in ("dbg", "rel")}
    n = 36000 if tier == "quick" else 500000
    from core import facts as FX
    with Driver(bins["dbg"]) as d0:
        facts, _ = FX.load(d0)
    ty = [{"tokens": f["tokens"]} for f in facts if FX.typeable(f["tokens"])]
    payloads = [{"seed": seed, "shard": i, "nshards": NCPU, "facts": ty[i::NCPU], "n": n // NCPU, "bin": bins["dbg"], "kind": "dbg", "thorough": tier == "thorough"} for i in range(NCPU)]
    payloads += [{"seed": seed, "shard": 100 + i, "nshards": NCPU, "n": n // NCPU // 5, "bin": bins["rel"], "kind": "rel",
                  "env": {"RUST_LOG": "anything=trace"} if i % 2 else None} for i in range(NCPU)]     # release build: both tiers; every other shard with trace logging enabled
    acc = run_shards(shard, payloads)
    return finish(PID, tier, seed, "exploration", acc, RULE, t0,
                  assumptions=["offset scales (°C, °F) are excluded here and handled by C09", "dimension classes come from the frozen reference table"],
                  extra={"exhaustive_parts": "prefix law and source/target coverage run over every accepted [prefix]name word of the vocabulary"},
                  min_eval=1000)

def replay(path):
    v = json.load(open(path))
    c = v["case"]
    with Driver(build.build(c.get("build", "dbg"))["vdriver"]) as d:
        print(json.dumps({"law": c["law"], "now": [[q, d.call({"op": "query", "q": q}).get("items")] for q in c["queries"]]}, ensure_ascii=False))
    return 0
