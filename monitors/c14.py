"""C14 - fact lookups do not depend on how the index was built (history + schedule monitor)."""
import collections, json, os, shutil, subprocess, sys, tempfile, time
from core import build, facts as FX
from core.driver import Driver, DriverDied, DriverTimeout
from core.run import Acc, finish, rng_for, run_shards, NCPU, h64

PID = "C14"
RULE = ("a *session* is one index life: in-memory build, first on-disk build, reopen of the same directory, rebuild after a forced data-hash "
        "mismatch, start after meta.json was lost or damaged, start after a start that was killed at a crash point. Every session answers the same query set Q (every typeable fact's own words, every distinct single word of the fact "
        "vocabulary, 1-3 letter prefixes of the 60 most frequent words, the token sets shared by several constants, upper/title-case and "
        "and/or/not variants of 60 phrases, 320 pairs of a rare word with a 1-3 letter prefix of a common one), each session in its OWN order (sorted, reverse sorted, near-duplicate clusters shuffled, fully shuffled), and the answer vectors "
        "[(description, value, unit) per query] of all sessions of a run must be identical - no reference ranking is assumed. Sessions are "
        "spread over schedule perturbations: repeated builds, processes pinned to 1/2/4/16 CPUs, producer-side jitter between add_document "
        "calls (ANYTHING_VERIF_DELAY hook), competing busy loops (thorough: strace futex delay injection, release build). The hook also "
        "reports the segment layout and, per query, whether the two best scores tie. non-trivial = distinct query whose two best matches tie "
        "(only there can the build schedule decide the answer), counted over the run")

def build_queries(facts):
    ty = [f for f in facts if FX.typeable(f["tokens"])]
    q = []
    for f in ty:
        q.append(" ".join(f["tokens"]))
    words = collections.Counter()
    for f in facts:
        for t in f["tokens"]:
            if FX.WORD.match(t) and t != "to" and not t[0].isdigit():
                words[t] += 1
    q += sorted(words)
    for w, _ in words.most_common(60):
        for k in (1, 2, 3):
            if len(w) >= k and w[:k] != "to":
                q.append(w[:k])
    # the same phrases in other letter cases and with the words and/or/not in both cases (the search library gives the upper-case
    # forms a meaning of their own): whatever such a phrase returns, it must return it in every session and after every other query
    multi = [x for x in q if " " in x]
    for x in multi[::7][:60]:
        ws = x.split(" ")
        q += [x.upper(), x.title(), "%s and %s" % (ws[0], ws[-1]), "%s AND %s" % (ws[0], ws[-1]), "%s or %s" % (ws[0], ws[-1]),
              "%s OR %s" % (ws[0], ws[-1]), "not %s" % ws[-1], "NOT %s" % ws[-1]]
    # a rare word next to a short prefix of a common one, both orders (`di margaret`): two near-tied candidates whose ranking moves
    # with the term statistics of the index - e.g. when every document is in it twice (seed C14-d)
    import random
    r = random.Random(20240917)
    rare = sorted(w for w, c in words.items() if c <= 2 and len(w) > 3)
    common = [w for w, _ in words.most_common(40)]
    for _ in range(160):
        a, b = r.choice(rare), r.choice(common)[: r.choice([1, 2, 2, 3])]
        if b != "to":
            q += ["%s %s" % (b, a), "%s %s" % (a, b)]
    # long phrases (7-14 words; no shipped fact has more than 6 search words): the words of a fact's description, the words of two
    # facts one after the other, a fact's words behind a run of common words, a fact's words twice. Anything that bounds, truncates or
    # summarises the phrase by what the index holds shows only past the longest stored entry (seed C14-g)
    import re
    descs = []
    for f in ty:
        ws = [w for w in re.sub(r"[^A-Za-z0-9°' ]", " ", f.get("description") or "").lower().split() if w != "to" and not w[0].isdigit()]
        if len(ws) >= 7:
            descs.append(" ".join(ws[:14]))
    r.shuffle(descs)
    q += descs[:120]
    for _ in range(120):
        a, b = r.choice(ty)["tokens"], r.choice(ty)["tokens"]
        k = r.choice([0, 1, 2])
        if k == 0:
            ws = list(a) + list(b) + (list(r.choice(ty)["tokens"]) if len(a) + len(b) < 7 else [])
        elif k == 1:
            ws = [r.choice(common) for _ in range(r.randint(5, 8))] + list(a)
        else:
            ws = list(a) * (1 + 7 // len(a))
        if len(ws) >= 7:
            q.append(" ".join(ws[:14]))
    seen, out = set(), []
    for x in q:
        if x not in seen:
            seen.add(x)
            out.append(x)
    return out

def session_order(queries, label):
    """The order in which one session asks its queries. The answer to a query must not depend on what was asked before it, so every
    session uses its own order; near-duplicates (same phrase up to letter case, phrases sharing a long prefix) are kept adjacent
    on purpose, in varying internal order: sorted ascending, sorted descending, clusters shuffled, fully shuffled."""
    import random
    rng = random.Random(h64("order|" + label))
    idx = list(range(len(queries)))
    kind = rng.randrange(4)
    if kind == 0:
        idx.sort(key=lambda i: (queries[i].lower(), queries[i]))
    elif kind == 1:
        idx.sort(key=lambda i: (queries[i].lower(), queries[i]), reverse=True)
    elif kind == 2:
        clusters = {}
        for i in idx:
            clusters.setdefault(queries[i].lower()[:24], []).append(i)
        groups = list(clusters.values())
        rng.shuffle(groups)
        idx = []
        for g in groups:
            rng.shuffle(g)
            idx += g
    else:
        rng.shuffle(idx)
    return idx

def answers(d, queries, with_ties, order=None):
    order = order if order is not None else list(range(len(queries)))
    reps_o = d.call_many([{"op": "query", "q": queries[i], "describe": True} for i in order], timeout=900)
    reps = [None] * len(queries)
    for i, r in zip(order, reps_o):
        reps[i] = r
    vec = []
    for q, rep in zip(queries, reps):
        if "panic" in rep:
            vec.append(("panic", rep["panic"]))
            continue
        items = rep.get("items") or []
        descs = rep.get("descs") or []
        if len(items) == 1 and "ok" in items[0] and len(descs) == 1:
            vec.append((descs[0]["description"], tuple(items[0]["ok"]["v"]), json.dumps(items[0]["ok"]["u"])))
        else:
            vec.append(("no-single-answer", json.dumps([it.get("err", {}).get("msg", "ok") for it in items])))
    ties = None
    if with_ties:
        tk = d.call_many([{"op": "topk", "phrase": q, "k": 2} for q in queries], timeout=900)
        ties = [i for i, r in enumerate(tk) if "ok" in r and len(r["ok"]) == 2 and r["ok"][0][0] == r["ok"][1][0]]
    return vec, ties

def open_session(argv, env, mode):
    d = Driver(argv, env=env)
    r = d.call({"op": "db", "mode": mode}, timeout=900)
    if "ok" not in r:
        d.close(kill=True)
        raise RuntimeError("db %s: %r" % (mode, r))
    layout = tuple(sorted((m, dl) for _, m, dl in r["ok"]["segments"]))
    return d, layout

def shard(p):
    """One payload = a list of sessions run one after the other (so that on-disk sequences share a directory)."""
    acc = Acc()
    out = []
    burners = []
    home = tempfile.mkdtemp(prefix="c14-") if any(s["mode"] == "disk" for s in p["sessions"]) else None
    try:
        if p.get("burn"):
            for _ in range(p["burn"]):
                burners.append(subprocess.Popen([sys.executable, "-c", "while True: pass"]))
        for s in p["sessions"]:
            env = {}
            if home:
                env["XDG_DATA_HOME"] = home
            if s.get("delay"):
                env["ANYTHING_VERIF_DELAY"] = s["delay"]
            argv = list(s.get("prefix") or []) + [p["bin"]]
            if s.get("crash") and home:
                # a start that is killed at a named point (not a session: it answers nothing); the next session finds what it left
                try:
                    subprocess.run([p["bin"]], input=(json.dumps({"op": "db", "mode": "disk"}) + "\n").encode(), env=dict(os.environ, XDG_DATA_HOME=home, ANYTHING_VERIF_CRASH=s["crash"]),
                                   stdout=subprocess.DEVNULL, stderr=subprocess.DEVNULL, timeout=300)
                except Exception as ex:
                    acc.inconc("crashing start: %r" % (ex,))
                continue
            if s.get("meta") and home:
                mp = os.path.join(home, "facts", "meta.json")
                try:
                    if s["meta"] == "lost":
                        os.unlink(mp)
                    elif s["meta"] in ("version-only", "hash-null"):
                        m = json.load(open(mp))
                        m = {"version": m.get("version")} if s["meta"] == "version-only" else {"version": m.get("version"), "database_hash": None}
                        json.dump(m, open(mp, "w"))
                    else:
                        open(mp, "w").write("{ not json")
                except Exception as ex:
                    acc.inconc("cannot damage meta.json: %r" % (ex,))
            if s.get("mismatch") and home:
                mp = os.path.join(home, "facts", "meta.json")
                try:
                    m = json.load(open(mp))
                    m["database_hash"] = "0123456789abcdef"
                    json.dump(m, open(mp, "w"))
                except Exception as ex:
                    acc.inconc("cannot force a hash mismatch: %r" % (ex,))
            try:
                d, layout = open_session(argv, env, s["mode"])
            except (RuntimeError, DriverDied, DriverTimeout) as ex:
                acc.inconc("session %s did not start: %r" % (s["label"], ex))
                continue
            try:
                vec, ties = answers(d, p["queries"], p.get("ties", False) and not out, order=session_order(p["queries"], s["label"]))
            except (DriverDied, DriverTimeout) as ex:
                acc.inconc("session %s died: %r" % (s["label"], ex))
                d.close(kill=True)
                continue
            d.close()
            out.append({"label": s["label"], "layout": layout, "digest": h64(json.dumps(vec)), "vec": vec if p.get("keep_vec") else None, "ties": ties})
    finally:
        for b in burners:
            b.kill()
        if home:
            shutil.rmtree(home, ignore_errors=True)
    acc.sessions = out
    return acc

def run(tier, seed):
    t0 = time.time()
    bins = {k: build.build(k)["vdriver"] for k in (("dbg",) if tier == "quick" else ("dbg", "rel"))}
    with Driver(bins["dbg"]) as d:
        facts, _ = FX.load(d)
        queries = build_queries(facts)
        ref_vec, ref_ties = answers(d, queries, True)
        layout0 = tuple(sorted((m, dl) for _, m, dl in d.call({"op": "db", "mode": "in_memory"})["ok"]["segments"]))
    rng = rng_for(seed, PID)
    payloads = []
    def mem(label, **kw):
        return dict(mode="in_memory", label=label, **kw)
    def disk_seq(tag, **kw):
        return [dict(mode="disk", label=tag + ":first-build", **kw), dict(mode="disk", label=tag + ":reopen", **kw),
                dict(mode="disk", label=tag + ":reopen2", **kw), dict(mode="disk", label=tag + ":rebuild-after-hash-mismatch", mismatch=True, **kw),
                dict(mode="disk", label=tag + ":reopen-after-rebuild", **kw),
                dict(mode="disk", label=tag + ":start-after-meta-lost", meta="lost", **kw), dict(mode="disk", label=tag + ":reopen-after-meta-lost", **kw),
                dict(mode="disk", label=tag + ":start-after-meta-garbage", meta="garbage", **kw),
                dict(mode="disk", label=tag + ":start-after-meta-without-hash", meta=["version-only", "hash-null"][h64(tag) % 2], **kw),
                dict(mode="disk", label=tag + ":killed-start", crash=["after_commit", "after_reload", "before_write_meta", "meta_created_empty", "before_commit", "deleted_all"][h64(tag) % 6], mismatch=True, **kw),
                dict(mode="disk", label=tag + ":start-after-killed-start", **kw), dict(mode="disk", label=tag + ":reopen-after-killed-start", **kw)]
    nrounds = 3 if tier == "quick" else 40
    for r in range(nrounds):
        for cpus in ("0", "0-1", "0-3", "0-15"):
            payloads.append({"bin": bins["dbg"], "sessions": [mem("mem:taskset%s#%d" % (cpus, r), prefix=["taskset", "-c", cpus]),
                                                             mem("mem:taskset%s:delay#%d" % (cpus, r), prefix=["taskset", "-c", cpus], delay="%d:300:300" % rng.randint(1, 10 ** 6))]})
            payloads.append({"bin": bins["dbg"], "sessions": disk_seq("disk:taskset%s#%d" % (cpus, r), prefix=["taskset", "-c", cpus])})
        for k in range(3):
            payloads.append({"bin": bins["dbg"], "sessions": [mem("mem:delay#%d.%d" % (r, k), delay="%d:%d:%d" % (rng.randint(1, 10 ** 6), rng.choice([50, 500, 3000]), rng.choice([50, 300, 900])))]})
            payloads.append({"bin": bins["dbg"], "sessions": disk_seq("disk:delay#%d.%d" % (r, k), delay="%d:%d:%d" % (rng.randint(1, 10 ** 6), rng.choice([50, 500]), rng.choice([100, 500])))})
        payloads.append({"bin": bins["dbg"], "burn": 8, "sessions": [mem("mem:busy#%d" % r), mem("mem:busy2#%d" % r)] + disk_seq("disk:busy#%d" % r)})
        if tier == "thorough":
            payloads.append({"bin": bins["rel"], "sessions": [mem("mem:release#%d" % r)] + disk_seq("disk:release#%d" % r)})
            if r < 10:
                payloads.append({"bin": bins["dbg"], "sessions": [mem("mem:strace-futex-delay#%d" % r, prefix=["strace", "-f", "-o", "/dev/null", "-e", "trace=futex", "-e", "inject=futex:delay_exit=%d" % rng.choice([50, 200, 1000])])]})
    for p in payloads:
        p["queries"] = queries
    accs = run_shards_keep(payloads)
    acc = Acc()
    sessions = []
    for a in accs:
        acc.merge(a)
        sessions += getattr(a, "sessions", [])
    ref_digest = h64(json.dumps(ref_vec))
    sessions.insert(0, {"label": "mem:reference", "layout": layout0, "digest": ref_digest})
    digests = collections.Counter(s["digest"] for s in sessions)
    layouts = collections.Counter(s["layout"] for s in sessions)
    acc.evaluations = len(sessions) * len(queries)
    for i in ref_ties or []:
        acc.nontriv(queries[i])
    acc.counters.update({"sessions": len(sessions), "queries_per_session": len(queries), "tie_queries": len(ref_ties or []),
                         "distinct_answer_vectors": len(digests), "distinct_segment_layouts": len(layouts)})
    modes = collections.Counter(s["label"].split("#")[0].split(":", 1)[0] + ":" + s["label"].split(":")[1].split("#")[0] for s in sessions)
    # structural: every session's index holds as many live documents as the reference build (whatever its segment layout)
    live0 = sum(m - dl for m, dl in layout0)
    odd = [s for s in sessions if sum(m - dl for m, dl in s["layout"]) != live0]
    acc.counters["live_documents_in_the_reference_index"] = live0
    if odd:
        acc.violate("c14:index-size-differs-between-sessions", "session %r serves an index with %d live documents in segments %s; the reference in-memory build has %d" % (
            odd[0]["label"], sum(m - dl for m, dl in odd[0]["layout"]), list(odd[0]["layout"]), live0), {"sessions": [s["label"] for s in odd][:40]})
    if len(layouts) > 1 and len(digests) == 1:
        # The sessions laid their documents out differently (segments), yet answered the standard query set alike. A different
        # layout is no violation - but it is the only way the ORDER of equally good matches can differ, so it triggers a deep
        # search for a query whose best matches tie across the parts: every prefix pair across two data files (smallest first),
        # asked of an in-memory and of an on-disk session. Only a differing ANSWER is reported (seed C14-e).
        found = deep_search(bins["dbg"], facts, acc)
        if found:
            q, a, b = found
            acc.violate("c14:answers-differ-between-sessions", "index layouts differ between sessions (%s) and the query %r is answered %r by the in-memory index but %r by the on-disk index" % (
                sorted(str(k) for k in layouts), q, a, b), {"query": q, "in_memory": a, "on_disk": b, "layouts": [str(k) for k in layouts]})
    if len(digests) > 1:
        # find which queries differ: re-run one deviating kind of session with vectors kept
        major = digests.most_common(1)[0][0]
        dev = [s for s in sessions if s["digest"] != major]
        detail = diff_detail(bins["dbg"], queries, ref_vec, dev[0]["label"])
        acc.violate("c14:answers-differ-between-sessions", "%d of %d sessions answered differently from the majority, e.g. session %r; %s" % (
            len(dev), len(sessions), dev[0]["label"], detail), {"deviating_sessions": [s["label"] for s in dev][:40], "detail": detail, "queries": len(queries)})
    acc.sample({"session": sessions[1]["label"] if len(sessions) > 1 else "-", "layout": sessions[1]["layout"] if len(sessions) > 1 else None,
                "answer_digest": "%016x" % sessions[0]["digest"], "first_answers": [[q, list(a)] for q, a in zip(queries[:3], ref_vec[:3])],
                "a_tie_query": (queries[ref_ties[0]] if ref_ties else None)})
    return finish(PID, tier, seed, "exploration", acc, RULE, t0,
                  assumptions=["interleavings are sampled, not enumerated: the claim is identical answers over the sessions run, covering the layouts and tie queries counted here",
                               "on a tree whose build uses one indexing thread the layout count is 1 by construction"],
                  extra={"sessions_by_kind": dict(modes), "segment_layouts": {str(k): v for k, v in layouts.items()}},
                  min_eval=1000)

def deep_search(binp, facts, acc, cap=400000):
    byfile = {}
    for f in facts:
        for t in f["tokens"]:
            if FX.WORD.match(t) and t != "to" and not t[0].isdigit():
                byfile.setdefault(f["file"], set()).add(t.lower())
    def prefixes(ws):
        out = set()
        for w in ws:
            for k in range(2, min(len(w), 5) + 1):
                out.add(w[:k])
            out.add(w)
        out.discard("to")
        return sorted(out)
    files = sorted(byfile, key=lambda f: len(byfile[f]))
    cands = []
    for i, f1 in enumerate(files):
        for f2 in files[i + 1:]:
            for p in prefixes(byfile[f1]):
                for q in prefixes(byfile[f2]):
                    cands.append(p + " " + q)
                    if len(cands) >= cap:
                        break
    acc.counters["deep_search_candidates"] = len(cands)
    home = tempfile.mkdtemp(prefix="c14-deep-")
    try:
        chunks = [cands[i::NCPU] for i in range(NCPU)]
        with multiprocessing_pool() as pool:
            for res in pool.imap_unordered(_deep_chunk, [(binp, home if i == 0 else tempfile.mkdtemp(prefix="c14-deep-"), c) for i, c in enumerate(chunks)]):
                if res:
                    return res
    finally:
        shutil.rmtree(home, ignore_errors=True)
    return None

def multiprocessing_pool():
    import multiprocessing
    return multiprocessing.get_context("fork").Pool(NCPU)

def _deep_chunk(args):
    binp, home, cands = args
    try:
        with Driver(binp) as m, Driver(binp, env={"XDG_DATA_HOME": home}) as dk:
            m.call({"op": "db", "mode": "in_memory"}, timeout=900)
            dk.call({"op": "db", "mode": "disk"}, timeout=900)
            for i in range(0, len(cands), 4000):
                qs = cands[i:i + 4000]
                a = m.call_many([{"op": "query", "q": q, "describe": True} for q in qs], timeout=900)
                b = dk.call_many([{"op": "query", "q": q, "describe": True} for q in qs], timeout=900)
                for q, x, y in zip(qs, a, b):
                    dx = [z["description"] for z in (x.get("descs") or [])]
                    dy = [z["description"] for z in (y.get("descs") or [])]
                    if dx != dy:
                        return (q, dx, dy)
    except Exception:
        return None
    finally:
        shutil.rmtree(home, ignore_errors=True)
    return None

def diff_detail(binp, queries, ref_vec, label):
    """Best effort: rebuild in-memory a few times and report the first query whose answer differs from the reference."""
    order = session_order(queries, label)
    pos = {qi: k for k, qi in enumerate(order)}
    for attempt in range(6):
        try:
            with Driver(binp) as d:
                d.call({"op": "db", "mode": "in_memory"}, timeout=600)
                vec, _ = answers(d, queries, False, order=order if attempt % 2 == 0 else None)
            for i, (q, a, b) in enumerate(zip(queries, ref_vec, vec)):
                if a != b:
                    before = [queries[j] for j in order[max(0, pos[i] - 2):pos[i]]] if attempt % 2 == 0 else queries[max(0, i - 2):i]
                    return "e.g. query %r asked right after %r: %s, but %s in the reference session (asked in list order)" % (q, before, b[0], a[0])
        except Exception:
            pass
    return "(the difference did not reproduce in 6 further in-memory builds)"

def _entry(p):
    try:
        return shard(p)
    except Exception as ex:
        a = Acc()
        a.inconc("session group crashed: %r" % (ex,))
        a.counters["shard_crashes"] = 1
        return a

def run_shards_keep(payloads):
    import multiprocessing
    with multiprocessing.get_context("fork").Pool(NCPU) as pool:
        return list(pool.imap_unordered(_entry, payloads))

def replay(path):
    v = json.load(open(path))
    print(json.dumps(v["case"], ensure_ascii=False)[:3000])
    return 0
