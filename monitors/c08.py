"""C08 - printed decimals are faithful and never silently truncated."""
import json, re, time
from fractions import Fraction
from core import build
from core.driver import Driver
from core.run import Acc, finish, rng_for, NCPU

PID = "C08"
RULE = ("for value x=n/d and spec (digit limit, exponent threshold) the text T printed by Rational::display must parse as "
        "-? digits ('.' digits)? '…'? ('e' -? digits)?; with v the decimal value of T and u one unit in its last printed digit: "
        "|v| <= |x| < |v|+u, sign correct, mark present iff |x| != |v|. Judged in-process on BigInt for every pair and re-judged "
        "by an independent Python oracle (Fraction) on a stratified sample. Workload: (n,d) grid, random m*10^k (k in -40..40), short mantissas times 10^e for e up to +-700 (every thirteenth exponent swept), terminating denominators of up to 1200 bits, "
        "terminating and repeating denominators, budget-boundary values (all nines, trailing zeros, integer part filling the budget) "
        "x limits 1..20 x thresholds 1..15, plus the CLI spec (12,12), plus digit budgets 21..257 on a share of the values. non-trivial = distinct (value,spec) pair where digits were "
        "actually cut off or the exponent form was used (counted by the in-process monitor)")
TEXT = re.compile(r"^(-?)([0-9]+)(?:\.([0-9]+))?(…?)(?:e(-?[0-9]+))?$")

def py_judge(n, d, text):
    x = Fraction(n, d)
    m = TEXT.match(text)
    if not m:
        return "malformed text"
    neg, i, f, mark, e = m.groups()
    f = f or ""
    e = int(e) if e else 0
    v = Fraction(int(i + f)) * Fraction(10) ** (e - len(f))
    u = Fraction(10) ** (e - len(f))
    if (neg == "-") != (x < 0):
        return "wrong sign"
    if not (v <= abs(x) < v + u):
        return "text %s is not the value cut off toward zero (value %s)" % (text, x)
    if (mark == "…") != (abs(x) != v):
        return "continuation mark %s although %s" % ("shown" if mark else "missing", "nothing was cut" if mark else "digits were cut")
    return None

def boundary_values(rng, count):
    vals = []
    for _ in range(count):
        k = rng.randint(1, 22)
        kind = rng.randint(0, 10)
        if kind >= 9:
            # extreme magnitudes with a SHORT mantissa (8e-181, 4.25e-170, 3e+500) and terminating denominators of hundreds of bits:
            # digit generators that change method with the width of the denominator (seed C08-h: repeated subtraction beyond 512 bits,
            # off by one exactly when the expansion terminates inside the budget)
            m = rng.choice([1, 8, 425, rng.randint(1, 999), rng.randint(1, 10 ** rng.randint(1, 14))])
            if kind == 9:
                e = rng.choice([-1, 1]) * rng.randint(41, 700)
                n, d = (m * 10 ** e, 1) if e >= 0 else (m, 10 ** -e)
            else:
                n, d = m, 2 ** rng.randint(100, 1200) if rng.random() < 0.5 else 5 ** rng.randint(50, 500)
            if rng.random() < 0.4:
                n = -n
            vals.append([str(n), str(d)])
            continue
        if kind >= 7:
            # sparse digit strings: a few non-zero digits far apart in a long run of zeros (10^39 + 7, 4*10^24 + 1, 1e-12 + 1e-24):
            # whatever decides the mark or the exponent from only PART of the cut-off digits goes wrong here (seeds C08-d, C08-e)
            L = rng.randint(12, 70)
            ds = ["0"] * L
            ds[0] = rng.choice("123456789")
            for _ in range(rng.randint(1, 3)):
                ds[rng.randrange(L)] = rng.choice("123456789")
            if kind == 8:
                ds[-1] = rng.choice("123456789")
            n, d = int("".join(ds)), 10 ** rng.choice([0, 0, 0, rng.randint(0, L + 20)])
            if rng.random() < 0.4:
                n = -n
            vals.append([str(n), str(d)])
            continue
        if kind == 0:
            n, d = 10 ** k - 1, 10 ** rng.randint(0, 25)                  # all nines
        elif kind == 1:
            n, d = 10 ** k, 10 ** rng.randint(0, 45)                      # 1 followed by zeros
        elif kind == 2:
            n, d = (10 ** k) * rng.randint(1, 9) + rng.choice([0, 1, -1]), 10 ** rng.randint(0, 30)
        elif kind == 3:
            n, d = 10 ** k * 10 + 5, 10                                     # integer part fills the budget, .5 follows
        elif kind == 4:
            m = rng.randint(1, 10 ** rng.randint(1, 18))
            e = rng.randint(-40, 40)
            n, d = (m * 10 ** e, 1) if e >= 0 else (m, 10 ** -e)
        elif kind == 5:
            n, d = rng.randint(1, 10 ** 12), 2 ** rng.randint(0, 20) * 5 ** rng.randint(0, 12)   # terminating
        else:
            n, d = rng.randint(1, 10 ** rng.randint(1, 30)), rng.choice([3, 7, 9, 11, 13, 17, 19, 97, 999, 1001, 3 * 10 ** rng.randint(1, 20)])
        if rng.random() < 0.4:
            n = -n
        vals.append([str(n), str(d)])
    # ... and a sweep over the exponent itself: 1, 8 and 4.25 times 10^e for every thirteenth e in -700..700 (offset by the run)
    off = rng.randrange(13)
    for e in range(-700 + off, 701, 13):
        for m in (1, 425):
            vals.append([str(m * 10 ** e), "1"] if e >= 0 else [str(m), str(10 ** -e)])
    # every power of two up to 2^260 and of five up to 5^120 as denominator, under a 53-bit odd numerator (what a value that went through
    # a float looks like) and under a numerator that makes the leading digits 8s and 9s: fast paths keyed on the width of a dyadic
    # denominator (seed C08-i: exactly 2^125 overflows a u128 in the shift-and-mask path, and only for the digits 8 and 9)
    for k in range(1, 261):
        m = rng.randrange(2 ** 52, 2 ** 53) | 1
        vals.append([str(m), str(2 ** k)])
        vals.append([str((2 ** k * rng.choice([8, 9, 89, 98, 899]) // 10 ** len(str(rng.choice([8, 89, 899])))) | 1), str(2 ** k)])
    for k in range(1, 121):
        vals.append([str(rng.randrange(1, 10 ** 15) * 2 + 1), str(5 ** k)])
    vals += [["0", "1"], ["1", "1"], ["-1", "1"], ["1", "8"], ["100000000", "1"], ["12345675", "10"]]
    return vals

def absorb(acc, rep, kind, label):
    if "pairs" not in rep:
        acc.inconc("%s %s %r" % (kind, label, rep))
        return []
    acc.evaluations += rep["pairs"]
    for k, v in rep["by_path"].items():
        acc.count("path_" + k, v)
    for k, v in rep["cut_by_path"].items():
        acc.count("cut_" + k, v)
    acc.count("panics", rep["panics"])
    nt = rep["cut"] + rep["by_path"]["big_exp"] + rep["by_path"]["small_exp"] - rep["cut_by_path"]["big_exp"] - rep["cut_by_path"]["small_exp"]
    base = len(acc.nontrivial)
    for i in range(nt):
        acc.nontrivial.add((label, kind, i))
    for v in rep["violations"]:
        what = v["what"]
        sig = "c08:" + re.sub(r"[0-9/]+", "N", what)[:70]
        acc.violate(sig, "%s/%s at (limit %s, threshold %s) printed %r: %s (%s)" % (v["n"], v["d"], v["limit"], v["exp"], v["text"], what, kind),
                    {"n": v["n"], "d": v["d"], "limit": v["limit"], "exp": v["exp"], "text": v["text"], "build": kind})
    acc.violation_count += max(0, rep["violation_count"] - len(rep["violations"]))
    for n, d, l, e, text in rep["sample"]:
        acc.count("python_rejudged")
        w = py_judge(int(n), int(d), text)
        if w:
            acc.violate("c08:python:" + re.sub(r"[0-9/.…e-]+", "N", w)[:60], "%s/%s at (%s,%s) printed %r: %s (%s, python oracle)" % (n, d, l, e, text, w, kind),
                        {"n": n, "d": d, "limit": l, "exp": e, "text": text, "build": kind})
    return rep["sample"]

def run(tier, seed):
    t0 = time.time()
    bins = {k: build.build(k)["vdriver"] for k in ("dbg", "rel")}
    acc = Acc()
    rng = rng_for(seed, PID)
    limits = list(range(1, 21))
    thresholds = list(range(1, 16))
    if tier == "quick":
        grid = {"nmax": 200, "dmax": 120, "stride": 23, "offset": seed % 23}
        nvals = 1500
    else:
        grid = {"nmax": 600, "dmax": 400, "stride": 5, "offset": seed % 5}
        nvals = 40000
    exhaustive_small = {"nmax": 30, "dmax": 24, "stride": 1, "offset": 0}
    for kind in ("dbg", "rel"):
        with Driver(bins[kind]) as d:
            rep = d.call(dict(op="c08_grid", limits=limits, thresholds=thresholds, sample_every=1500, threads=NCPU, **exhaustive_small), timeout=3600)
            absorb(acc, rep, kind, "small grid (complete)")
            rep = d.call(dict(op="c08_grid", limits=limits, thresholds=thresholds, sample_every=4000, threads=NCPU, **grid), timeout=6 * 3600)
            s = absorb(acc, rep, kind, "grid")
            vals = boundary_values(rng, nvals)
            for i in range(0, len(vals), 2000):
                rep = d.call({"op": "c08_list", "values": vals[i:i + 2000], "limits": limits, "thresholds": thresholds, "sample_every": 600}, timeout=3600)
                s2 = absorb(acc, rep, kind, "boundary/random %d" % i)
            rep = d.call({"op": "c08_list", "values": vals[:3000], "limits": [12], "thresholds": [12], "sample_every": 50}, timeout=3600)
            absorb(acc, rep, kind, "cli spec (12,12)")
            # digit budgets far beyond the everyday ones (a fixed-size digit buffer that drops the digit on which it is flushed, seed
            # C08-j: the 33rd fraction digit) on a share of the values and on long repeating expansions
            big_limits = [21, 31, 32, 33, 34, 35, 40, 63, 64, 65, 66, 67, 100, 129, 257]
            extra_vals = vals[:400] + [[str(rng.choice([1, -1]) * rng.randint(1, 10 ** rng.randint(1, 12))), str(rng.choice([7, 13, 17, 19, 23, 97, 9973, 7 * 10 ** rng.randint(1, 9)]))] for _ in range(200)]
            rep = d.call({"op": "c08_list", "values": extra_vals, "limits": big_limits, "thresholds": [1, 8, 15, 40], "sample_every": 300}, timeout=3600)
            absorb(acc, rep, kind, "digit budgets 21..257")
            if kind == "dbg":
                for x in (s[:2] + s2[:3]):
                    acc.sample({"n": x[0], "d": x[1], "limit": x[2], "threshold": x[3], "printed": x[4]}, cap=5)
    return finish(PID, tier, seed, "exploration", acc, RULE, t0,
                  assumptions=["BigInt long division (in-process oracle) and Python Fraction (second oracle) are exact",
                               "show_continuation is on (the property is about the mark)"],
                  extra={"small_grid_complete": "n in [-30,30] x d in [1,24] x limits 1..20 x thresholds 1..15 (both builds)"},
                  min_eval=10000)

def replay(path):
    v = json.load(open(path))
    c = v["case"]
    with Driver(build.build(c.get("build", "dbg"))["vdriver"]) as d:
        rep = d.call({"op": "display", "n": c["n"], "d": c["d"], "limit": c["limit"], "exp": c["exp"]})
    print(json.dumps({"case": c, "now": rep, "python": py_judge(int(c["n"]), int(c["d"]), rep.get("text", ""))}, ensure_ascii=False))
    return 0
