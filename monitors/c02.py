"""C02 - addition, subtraction and casts are allowed exactly between commensurable units."""
import json, time
from fractions import Fraction as F
from core import build, unitgen as G, units_ref as R, boundary, exact
from core.driver import Driver, DriverDied, DriverTimeout
from core import multi
from core.run import Acc, finish, rng_for, run_shards, NCPU

PID = "C02"
RULE = ("pairs of unit expressions (U1,U2) over the whole non-offset vocabulary (every accepted [prefix]name word, powers -3..3, "
        "up to 3 factors joined by * and one /): (i) structurally different spellings of one dimension built backwards from U1's "
        "exponent vector using derived units whose base powers cancel, (ii) near misses differing in one base exponent, (iii) every "
        "documented unit against every other, (iv) a plain number on either side. `a U1 + b U2`, `a U1 - b U2`, `a U1 to U2` must be "
        "Ok iff the exponent vectors (frozen reference) are equal; an Ok must have the left (resp. target) unit's structure and the "
        "exact SI-normalised sum/difference/converted value; otherwise an error and never a number. "
        "non-trivial = distinct query whose two sides are textually different and involve a derived or prefixed unit")

IDENTITIES = [("Watt", [("Volt", 1), ("Ampere", 1)]), ("Joule", [("Watt", 1), ("Second", 1)]), ("Joule", [("Newton", 1), ("Meter", 1)]),
              ("Siemens", [("Ohm", -1)]), ("Gray", [("Sievert", 1)]), ("Becquerel", [("Second", -1)]), ("Coulomb", [("Ampere", 1), ("Second", 1)]),
              ("Volt", [("Watt", 1), ("Ampere", -1)]), ("Ohm", [("Volt", 1), ("Ampere", -1)]), ("Farad", [("Coulomb", 1), ("Volt", -1)]),
              ("Weber", [("Volt", 1), ("Second", 1)]), ("Tesla", [("Weber", 1), ("Meter", -2)]), ("Henry", [("Weber", 1), ("Ampere", -1)]),
              ("Pascal", [("Newton", 1), ("Meter", -2)]), ("Lux", [("Lumen", 1), ("Meter", -2)]), ("Katal", [("Mole", 1), ("Second", -1)]),
              ("Watt", [("Joule", 1), ("Second", -1)]), ("Newton", [("Joule", 1), ("Meter", -1)]), ("Velocity", [("Meter", 1), ("Second", -1)]),
              ("Acceleration", [("Meter", 1), ("Second", -2)]), ("Hectare", [("Meter", 2)]), ("Litre", [("Meter", 3)])]

def mag(rng):
    """A magnitude as (text, Fraction): integer, decimal or exponent notation; mostly positive, 12 % negative, 3 % zero."""
    s = rng.random()
    if s < 0.03:
        t = rng.choice(["0", "0.0", "-0", "0e3"])
        return t, F(0)
    if s < 0.15:
        t, v = _mag(rng)
        return "-" + t, -v
    return _mag(rng)

def _mag(rng):
    r = rng.random()
    if rng.random() < 0.05:
        # machine-word / limb boundaries and 1 +- 10^-k (core/boundary.py)
        t = boundary.literal(rng, allow_neg=False)
        v = exact.lit_from_text(t)
        if v > 0:
            return t, v
    if r < 0.4:
        v = F(rng.randint(1, 50))
        return str(v.numerator), v
    if r < 0.8:
        n, k = rng.randint(1, 99999), rng.randint(0, 4)
        s = str(n).rjust(k + 1, "0")
        return ((s[:-k] + "." + s[-k:]) if k else s), F(n, 10 ** k)
    m, e = rng.randint(1, 9), rng.randint(-6, 9)
    return "%de%d" % (m, e), F(m) * F(10) ** e

def shard(p):
    acc = Acc()
    rng = rng_for(p["seed"], PID, p["shard"])
    # every fourth shard evaluates with a logger installed at trace level (RUST_LOG): enabling logging must not change any result.
    # (The vocabulary - which words mean what, measured scales - comes from a plain driver: a fault that logging switches on must not
    # also shift the yardstick.)
    log_env = {"RUST_LOG": "anything=trace"} if p["shard"] % 4 == 3 else None
    d = Driver(p["bin"], env=log_env)
    try:
        if log_env:
            acc.context = {"trace_logging": True}
            acc.count("shards_with_trace_logging_enabled")
            with Driver(p["bin"]) as d_plain:
                V = G.Vocab(d_plain)
        else:
            V = G.Vocab(d)
        acc.count("vocabulary_words", len(V.entries)) if p["shard"] == 0 else None
        cases = []
        bare = [e for e in V.entries if e["bare"]]
        first_by_unit = {}
        for e in bare:
            first_by_unit.setdefault(e["unit"], e)
        for i in range(p["n"]):
            kind = rng.choice(["same", "same", "same", "miss", "rand", "num", "num"])
            f1 = V.rand_factors(rng, nmax=3 if rng.random() < 0.97 else rng.choice([6, 9, 14]))
            _, d1 = V.factors_si(f1)
            if kind == "same":
                f2 = V.factors_for_dims(rng, d1)
            elif kind == "miss":
                j = rng.randrange(len(R.DIMS))
                d2 = list(d1); d2[j] += rng.choice([1, -1])
                f2 = V.factors_for_dims(rng, tuple(d2))
            elif kind == "rand":
                f2 = V.rand_factors(rng)
            else:
                f2 = None
            if kind != "num" and not f2:
                continue
            cases.append((kind, f1, f2))
        # large unit powers: a fixed-width summary of the exponent vector (i8/i16 per base, a hash) confuses powers that differ
        # by a multiple of 256 / 65536 (seed C02-c). Conversion-free, prefix-free base units keep the values trivial.
        plain = [e for e in bare if V.scale[e["key"]] == 1 and e["prefix"] == 0 and sum(1 for x in e["dims"] if x) == 1 and sum(e["dims"]) == 1]
        BIG = [127, 128, 129, 255, 256, 257, 511, 512, 32767, 32768, 65535, 65536, 65537]
        for i in range(p["n"] // 12 if plain else 0):
            ea = rng.choice(plain)
            P = rng.choice(BIG) * rng.choice([1, 1, -1])
            r = rng.random()
            if r < 0.35:
                Q = P
            elif r < 0.75:
                Q = P + rng.choice([256, -256, 512, 65536, -65536, 256 * rng.randint(-3, 3)])
            else:
                Q = rng.choice([P + 1, P - 1, -P, P % 256, P % 65536, P - 256 if P > 0 else P + 256])
            f1, f2 = [(ea, P)], ([(ea, Q)] if Q else [])
            if rng.random() < 0.5:
                eb = rng.choice([e for e in plain if e["key"] != ea["key"]])
                pw = rng.choice([1, -1, 2])
                f1.append((eb, pw))
                f2.append((eb, pw))
            if not f2:
                continue
            cases.append(("bigpow", f1, f2))
        # respelling by a unit identity (W = V*A, J = W*s = N*m, S = 1/ohm, Gy ~ Sv, Bq = 1/s ...): both sides share unit NAMES,
        # with different powers, and the surplus is made up by a dimensionally dependent unit (seed C02-d)
        idents = []
        for uname, parts in IDENTITIES:
            eu = first_by_unit.get(uname)
            eps = [(first_by_unit.get(n), pw) for n, pw in parts]
            if eu is None or any(e is None for e, _ in eps):
                continue
            dsum = R.ZERO_DIMS
            for e, pw in eps:
                dsum = R.add_dims(dsum, e["dims"], pw)
            if dsum == eu["dims"]:
                idents.append((eu, eps))
        for i in range(p["n"] // 10 if idents else 0):
            eu, eps = rng.choice(idents)
            m = {}
            def addf(e, pw):
                cur = m.get(e["key"], (e, 0))
                m[e["key"]] = (cur[0], cur[1] + pw)
            a_ = rng.choice([1, 1, 2])
            for e, pw in eps:
                addf(e, pw * a_)
            if rng.random() < 0.5:
                addf(eu, rng.choice([1, 1, 2, -1]))
            if rng.random() < 0.4:
                addf(rng.choice(idents)[0], rng.choice([1, -1]))
            f1 = [(e, pw) for e, pw in m.values() if pw]
            addf(eu, 1)
            for e, pw in eps:
                addf(e, -pw)
            f2 = [(e, pw) for e, pw in m.values() if pw]
            if not f1 or not f2:
                continue
            if rng.random() < 0.5:
                f1, f2 = f2, f1
            cases.append(("identity", f1, f2))
            if rng.random() < 0.5 and len(f1) + len(f2) >= 3:
                # the same bag of (unit, power) entries split differently between the two sides, right after (or right before) the
                # commensurable pair: one factor changes sides WITHOUT being inverted (N*m | J, then N | m*J). A verdict remembered
                # for an unordered bag of units answers the wrong question the second time (seed C02-f)
                g1, g2 = list(f1), list(f2)
                src, dst = (g1, g2) if len(g1) > 1 and (len(g2) == 1 or rng.random() < 0.5) else (g2, g1)
                if len(src) > 1:
                    mv = src.pop(rng.randrange(len(src)))
                    if not any(e["key"] == mv[0]["key"] for e, _ in dst):
                        dst.append(mv)
                        pair2 = ("resplit", g1, g2)
                        if rng.random() < 0.5:
                            cases.append(pair2)
                        else:
                            cases.insert(len(cases) - 1, pair2)
        # the same letters as two blank-separated words and glued into one word with another meaning (m s | ms, m N | mN), combined by
        # +, - and `to` in one query: mostly incommensurable, so the error is what is expected (seeds C03-h, C04-h)
        forced = {}
        conf = G.confusables(V)
        for i in range(p["n"] // 16 if conf else 0):
            a, b, ab = rng.choice(conf)
            f1, f2 = [(a, 1), (b, 1)], [(ab, 1)]
            forced[id(f1)] = "%s %s" % (a["word"], b["word"])
            if rng.random() < 0.5:
                f1, f2 = f2, f1
            cases.append(("confusable", f1, f2))
        # cancelling factors inside ONE glued word: a unit cancels its earlier occurrence and then comes back under another prefix in
        # the same blank-free word (mm/mmm = 1/m, s*kg/kgg = s/g). Only pairs whose glued spelling has a single reading. (seed C02-h:
        # cancelled entries swept between words but not inside one)
        by_word = {e["word"]: e for e in V.entries}
        glued = [(by_word[a_], by_word[b_]) for a_, b_ in p.get("glued", []) if a_ in by_word and b_ in by_word]
        # (only glued words the tool can split at all: `1 mkm` is "not a valid unit" for the generated lexer - rejecting a word is allowed -
        # whereas `1 mmm` is understood and refused for mixing two prefixes of one unit while both are alive)
        rng.shuffle(glued)
        greps = d.call_many([{"op": "query", "q": "1 %s%s" % (ep["word"], eq["word"])} for ep, eq in glued], timeout=300) if glued else []
        glued = [g for g, r_ in zip(glued, greps) if not any("not a valid unit" in (it.get("err", {}).get("msg") or "") for it in (r_.get("items") or [{"err": {"msg": "not a valid unit"}}]))]
        for i in range(p["n"] // 16 if glued else 0):
            ep, eq = rng.choice(glued)
            net = [(eq, -1)]
            txt = "%s/%s%s" % (ep["word"], ep["word"], eq["word"])
            if rng.random() < 0.6:
                eb = V.pick(rng)
                if eb["key"] != ep["key"]:
                    net = [(eb, 1), (eq, -1)]
                    txt = "%s*%s" % (eb["word"], txt)
            _s, dn = V.factors_si(net)
            f2 = V.factors_for_dims(rng, dn)
            if not f2 or any(e["key"] == ep["key"] for e, _ in f2):
                continue
            forced[id(net)] = txt
            cases.append(("cancel-reappear", net, f2) if rng.random() < 0.6 else ("cancel-reappear", f2, net))
        for (a, b) in p["matrix"]:
            ea, eb = first_by_unit.get(a), first_by_unit.get(b)
            if ea and eb:
                cases.append(("matrix", [(ea, 1)], [(eb, 1)]))
        reqs, meta = [], []
        for kind, f1, f2 in cases:
            t1 = forced.get(id(f1)) or G.text(f1, rng)
            s1, d1 = V.factors_si(f1)
            as_, a = mag(rng)
            bs_, b = mag(rng)
            if kind == "num":
                ks, k = mag(rng)
                for order, op in [("num-left", "+"), ("num-right", "+"), ("num-left", "-"), ("num-right", "-")]:
                    q = ("%s %s %s %s" % (ks, op, as_, t1)) if order == "num-left" else ("%s %s %s %s" % (as_, t1, op, ks))
                    if order == "num-left":
                        val = (k + a) if op == "+" else (k - a)
                    else:
                        val = (a + k) if op == "+" else (a - k)
                    reqs.append({"op": "query", "q": q})
                    meta.append((kind + ":" + order, op, q, True, val * s1, d1, V.factors_parts(f1), t1, None))
                continue
            t2 = forced.get(id(f2)) or G.text(f2, rng)
            s2, d2 = V.factors_si(f2)
            same = d1 == d2
            for op in ("+", "-", "to"):
                if op == "to":
                    q = "%s %s to %s" % (as_, t1, t2)
                    want_v, want_parts = a * s1, V.factors_parts(f2)
                else:
                    q = "%s %s %s %s %s" % (as_, t1, op, bs_, t2)
                    want_v = a * s1 + b * s2 if op == "+" else a * s1 - b * s2
                    want_parts = V.factors_parts(f1)
                reqs.append({"op": "query", "q": q})
                meta.append((kind, op, q, same, want_v, d1, want_parts, t1, t2))
        for i in range(0, len(reqs), 3000):
            try:
                reps = d.call_many(reqs[i:i + 3000], timeout=300)
            except (DriverDied, DriverTimeout) as ex:
                acc.inconc("driver: %r" % (ex,))
                d.restart()
                continue
            for (kind, op, q, same, want_v, dims, want_parts, t1, t2), rep in zip(meta[i:i + 3000], reps):
                acc.evaluations += 1
                acc.count("kind_" + kind.split(":")[0])
                acc.count("commensurable" if same else "incommensurable")
                if t2 != t1 and ("*" in q or "/" in q or "^" in q or kind in ("matrix",) or any(c.isupper() for c in q)):
                    acc.nontriv(q)
                case = {"query": q, "build": p["kind"], "commensurable": same, "expected_si": str(want_v), "expected_unit": want_parts}
                if "panic" in rep:
                    acc.violate("c02:panic:" + str(rep.get("panic_loc")), "%r panicked: %s" % (q, rep["panic"]), dict(case, observed=rep["panic"]))
                    continue
                items = rep.get("items") or []
                case["observed"] = items
                oks = [it for it in items if "ok" in it]
                if not same:
                    if oks or not items:
                        acc.violate("c02:incommensurable-accepted:" + op, "%r combines different dimensions but gave %s" % (q, [o["ok"]["v"] for o in oks]), case)
                    continue
                if len(items) != 1 or not oks:
                    acc.violate("c02:commensurable-rejected:%s:%s" % (op, kind.split(":")[0]), "%r has the same base dimensions on both sides but gave %s" % (q, [it.get("err", {}).get("msg") for it in items]), case)
                    continue
                try:
                    got_v, got_d = V.norm_item(oks[0])
                except Exception as ex:
                    acc.inconc("cannot normalise result of %r: %r" % (q, ex))
                    continue
                if got_d != dims or got_v != want_v:
                    acc.violate("c02:wrong-value:%s:%s" % (op, kind), "%r is %s [%s] in SI, expected %s [%s]" % (q, got_v, G.si.fmt_dims(got_d), want_v, G.si.fmt_dims(dims)), case)
                    continue
                got_parts = sorted(oks[0]["ok"]["u"])
                if got_parts != want_parts:
                    acc.violate("c02:wrong-unit:%s:%s" % (op, kind), "%r came back in unit %s instead of %s" % (q, got_parts, want_parts), case)
                    continue
                acc.sample({"query": q, "si_value": str(got_v), "unit": got_parts}, cap=1)
        # several expressions in one query string: each gives what it gives alone, also right after a refused combination
        qs = [r["q"] for r in reqs]
        multi.stage(acc, d, rng.sample(qs, min(len(qs), 400)), rng, max(50, p["n"] // 3), PID, p["kind"])
    finally:
        d.close()
    return acc

def run(tier, seed):
    t0 = time.time()
    bins = {k: build.build(k)["vdriver"] for k in ("dbg", "rel")}
    names = [u["name"] for u in R.U.values() if not u["offset"]]
    pairs = [(a, b) for a in names for b in names]
    rng = rng_for(seed, PID, "matrix")
    if tier == "quick":
        rng.shuffle(pairs)          # (the whole 86 x 86 matrix in both tiers: 22 000 queries are cheap)
        n = 16000
    else:
        n = 250000
    # same-unit pairs under different prefixes whose glued spelling has a single reading (computed once: the reference segmentation
    # of ~10^4 words is not free)
    with Driver(bins["dbg"]) as d0:
        V0 = G.Vocab(d0)
    cand = []
    for k, es in sorted(V0.by_key.items()):
        es = [e for e in es if len(e["word"]) <= 3]
        cand += [(ep["word"], eq["word"]) for ep in es for eq in es if ep["prefix"] != eq["prefix"]]
    rng.shuffle(cand)
    gl = [(a_, b_) for a_, b_ in cand[:1000] if len({(s_, dd) for s_, dd, iv in R.readings(a_ + b_)}) == 1]
    payloads = []
    for i in range(NCPU):
        payloads.append({"seed": seed, "shard": i, "n": n // NCPU, "bin": bins["dbg"], "kind": "dbg", "matrix": pairs[i::NCPU], "glued": gl[i::NCPU * 2]})
    # the release build (wrapping arithmetic, no debug assertions) sees a quarter of the random workload in both tiers
    for i in range(NCPU):
        payloads.append({"seed": seed, "shard": 100 + i, "n": n // NCPU // 4, "bin": bins["rel"], "kind": "rel", "matrix": [], "glued": gl[NCPU + i::NCPU * 2]})
    acc = run_shards(shard, payloads)
    return finish(PID, tier, seed, "exploration", acc, RULE, t0,
                  assumptions=["exponent vectors and unit ids come from the frozen reference table (monitors/core/units_ref.py)",
                               "per-unit scales are measured through the tool's own `1 U to <base units>`; their validity is judged by C05"],
                  extra={"unit_matrix": "all %d x %d ordered pairs of documented non-offset units" % (len(names), len(names)) if True else ""},
                  min_eval=1000)

def replay(path):
    v = json.load(open(path))
    c = v["case"]
    from core.driver import replay_env
    with Driver(build.build(c.get("build", "dbg"))["vdriver"], env=replay_env(c)) as d:
        print(json.dumps({"query": c["query"], "commensurable": c["commensurable"], "expected_si": c["expected_si"], "now": d.call({"op": "query", "q": c["query"]}).get("items")}, ensure_ascii=False))
    return 0
