"""C05 - every unit word denotes the standard definition of a unit and prefix."""
import json, time
from fractions import Fraction as F
from core import build, unitgen as G, units_ref as R
from core.driver import Driver, DriverDied, DriverTimeout
from core.run import Acc, finish, rng_for, run_shards, NCPU
import c06

PID = "C05"
RULE = ("(1) every documented unit: its scale to SI base units, observed as `1 <name> to <base units>` for every typeable name, must be a "
        "valid reading in the frozen reference (SI brochure / yard-and-pound agreement / US customary; sets where standards differ, "
        "intervals where no exact value exists); (2) the full cross product (40 prefix spellings + none) x 239 names: each typeable word w "
        "is sent as `1 w`, `1w` and to str::parse::<Compound>; if accepted its (SI value, dimension) must be one of the readings of w as a "
        "sequence of [prefix]name pieces, and the three entry points must agree; every typeable documented name must be accepted on its "
        "own with its own meaning; (3) concatenations of 2-3 unit words, and every [prefix]name word (quick: up to five letters) x every name as ONE word, swept in-process - "
        "those that read differently from the product of the two pieces are judged by the segmentation oracle; (4) random unit expressions: juxtaposition, `*` and blanks "
        "multiply, `/` inverts everything after it, `^n` binds to the unit it follows. Rejections are allowed except for bare documented "
        "names. non-trivial = distinct accepted word with a prefix or more than one reading, or accepted expression with >=2 words")

def reading_of(V, item):
    v, parts = G.si.item_value(item)
    return V.normalise(v, parts, allow_offset_as_interval=True), [list(x) for x in parts]

def shard(p):
    acc = Acc()
    rng = rng_for(p["seed"], PID, p["shard"])
    d = Driver(p["bin"])
    try:
        V = G.Vocab(d, include_offset=True)
        bad_keys = {}
        # ---- (1) scales of the documented units (every shard needs bad_keys; only shard 0 reports)
        for u in R.U.values():
            if u["offset"]:
                continue
            for name in u["names"]:
                if not R.typeable(name):
                    continue
                q = "1 %s to %s" % (name, G.base_expr(u["dims"]))
                rep = d.call({"op": "query", "q": q})
                items = rep.get("items") or []
                if p["shard"] == 0:
                    acc.evaluations += 1
                    acc.count("scale_checks")
                if len(items) != 1 or "ok" not in items[0]:
                    if p["shard"] == 0:
                        acc.violate("c05:scale-unobservable:" + name, "%r gave %s" % (q, items or rep), {"query": q, "observed": items})
                    continue
                s = G.si.frac(items[0]["ok"]["v"])
                if not R.valid_scale(u, s):
                    bad_keys[u["key"]] = (u["name"], s)
                    if p["shard"] == 0:
                        acc.violate("c05:unit-scale:%s=%s" % (u["name"], s),
                                    "1 %s is %s (= %.12g) in SI base units, which is none of the standard values %s" % (
                                        name, s, float(s), [str(r) for r in u["readings"]] or ["interval %s..%s" % tuple(float(x) for x in u["interval"])]),
                                    {"query": q, "unit": u["name"], "observed_scale": str(s)})
        # ---- (2) words
        words = p["words"]
        reqs = []
        for w in words:
            reqs += [{"op": "query", "q": "1 " + w}, {"op": "query", "q": "1" + w}, {"op": "compound", "s": w}]
        reps = []
        for i in range(0, len(reqs), 3000):
            reps += d.call_many(reqs[i:i + 3000], timeout=300)
        for wi, w in enumerate(words):
            r1, r2, r3 = reps[3 * wi: 3 * wi + 3]
            acc.evaluations += 1
            case = {"word": w, "build": p["kind"]}
            for r in (r1, r2, r3):
                if "panic" in r:
                    acc.violate("c05:panic:" + str(r.get("panic_loc")), "word %r panicked: %s" % (w, r["panic"]), dict(case, observed=r["panic"]))
            i1 = r1.get("items") or []
            i2 = r2.get("items") or []
            acc1 = len(i1) == 1 and "ok" in i1[0]
            acc2 = len(i2) == 1 and "ok" in i2[0]
            acc3 = "ok" in r3
            bare_doc = w in R.NAME2UNITS
            if not (acc1 or acc2 or acc3):
                acc.count("words_rejected")
                if bare_doc:
                    acc.violate("c05:documented-name-rejected:" + w, "the documented unit name %r is not accepted: %s" % (w, [it.get("err", {}).get("msg") for it in i1]), dict(case, observed=i1))
                continue
            acc.count("words_accepted")
            if not (acc1 and acc2 and acc3):
                if len(w) == 1 and w in "eE" and not acc2:
                    pass
                else:
                    acc.violate("c05:entry-points-disagree:accept", "%r: `1 w` accepted=%s, `1w` accepted=%s, Compound parser accepted=%s" % (w, acc1, acc2, acc3), dict(case, observed=[i1, i2, r3]))
                    continue
            it = i1[0] if acc1 else i2[0]
            (sv, dims), parts = reading_of(V, it)
            parts_c = r3["ok"]["u"] if acc3 else parts
            if (acc2 and i2[0]["ok"]["u"] != parts and acc1) or sorted(parts_c) != sorted(parts):
                acc.violate("c05:entry-points-disagree:reading", "%r is read differently by the query (%s / %s) and the Compound parser (%s)" % (w, parts, i2[0]["ok"]["u"] if acc2 else None, parts_c), case)
                continue
            multi = len({(s, dd) for (s, dd, iv) in R.readings(w)}) > 1
            if w not in R.NAME2UNITS or multi:
                acc.nontriv(w)
            if multi:
                acc.count("accepted_words_with_several_readings")
            for part in parts:
                acc.seen("units_seen_in_accepted_words", part[0])
            case["observed_parts"] = parts
            case["observed_si"] = str(sv)
            bad = [k for k, _, _ in parts if k in bad_keys]
            if bare_doc:
                own = any(parts == [[u["key"], 1, -3 if u["name"] == "Gram" else 0]] for u in R.NAME2UNITS[w])
                if not own:
                    acc.violate("c05:documented-name-other-meaning:" + w, "the documented name %r is read as %s, not as its own unit" % (w, parts), case)
                    continue
            if not R.reading_matches(w, sv, dims):
                if bad:
                    name, s = bad_keys[bad[0]]
                    acc.violate("c05:unit-scale:%s=%s" % (name, s), "word %r inherits the non-standard scale of %s" % (w, name), case)
                else:
                    rd = sorted({(float(s), G.si.fmt_dims(dd)) for (s, dd, iv) in R.readings(w)})[:6]
                    fb = R.fallback_node(w)
                    sig = "c05:lexer-fallback" if fb else "c05:word-reading:%s=%s" % (w, ";".join("%s^%d@%d" % tuple(x) for x in parts))
                    acc.violate(sig, "%r is read as %s = %s [%s]; its valid readings are %s" % (w, parts, sv, G.si.fmt_dims(dims), rd), case)
                continue
            if wi % 37 == 0:
                acc.sample({"word": w, "read_as": parts, "si": str(sv), "dims": G.si.fmt_dims(dims), "valid_readings": len(R.readings(w))}, cap=2)
        # ---- (2b) words for the offset scales (°C, °F with any prefix) and prefixed kelvin: what such a word MEANS shows only in a
        # conversion between two different scales, where the prefix has to be applied on the right side of the zero point
        # (300 K to m°C = 26850, seed C05-g); as an interval the word is judged above like any other
        if p["shard"] % 4 == 0:
            tw = [e for e in V.entries if e["offset"] or e["unit"] == "Kelvin"]
            def to_k(e, x):
                y = x * F(10) ** e["prefix"]
                return y + F(27315, 100) if e["unit"] == "Celsius" else ((y - 32) * F(5, 9) + F(27315, 100) if e["unit"] == "Fahrenheit" else y)
            def from_k(e, k):
                y = k - F(27315, 100) if e["unit"] == "Celsius" else ((k - F(27315, 100)) * F(9, 5) + 32 if e["unit"] == "Fahrenheit" else k)
                return y / F(10) ** e["prefix"]
            treqs, tmeta = [], []
            for e in tw:
                for _k in range(3):
                    o = rng.choice(tw)
                    x = rng.choice([F(0), F(1), F(300), F(rng.randint(-4000, 4000), 10), F(rng.randint(1, 10 ** 6))])
                    t10 = int(x * 10)
                    xs = str(x.numerator) if x.denominator == 1 else "%s%d.%d" % ("-" if x < 0 else "", abs(t10) // 10, abs(t10) % 10)
                    for src, dst in ((e, o), (o, e)):
                        treqs.append({"op": "query", "q": "%s %s to %s" % (xs, src["word"], dst["word"])})
                        tmeta.append((treqs[-1]["q"], from_k(dst, to_k(src, x)), dst))
            treps = d.call_many(treqs, timeout=300) if treqs else []
            for (q, want, dst), rep in zip(tmeta, treps):
                acc.evaluations += 1
                acc.count("temperature_word_conversions")
                acc.nontriv(q)
                items = rep.get("items") or []
                if len(items) != 1 or "ok" not in items[0]:
                    acc.violate("c05:temperature-word:rejected", "%r gave %s" % (q, items or rep), {"query": q, "observed": items, "build": p["kind"]})
                    continue
                got = G.si.frac(items[0]["ok"]["v"])
                if got != want or items[0]["ok"]["u"] != [[dst["key"], 1, dst["prefix"]]]:
                    acc.violate("c05:temperature-word:%s" % dst["unit"], "%r is %s %s; prefix and scale of the two words give %s" % (q, got, items[0]["ok"]["u"], want),
                                {"query": q, "observed": items, "expected": str(want), "build": p["kind"]})
        # ---- (3) + (4) concatenations and expressions over single-reading accepted words
        single = [e for e in V.entries if not e["offset"] and e["key"] not in bad_keys
                  and len({(s, dd) for (s, dd, iv) in R.readings(e["word"])}) == 1]
        by_key = {}
        for e in single:
            by_key.setdefault(e["key"], []).append(e)
        reqs, meta = [], []
        for _ in range(p["n_concat"]):
            k = rng.choice([2, 2, 3, 2, 2, 3, 2, 2, 3, 5, 7])
            es = [rng.choice(single) for _ in range(k)]
            if rng.random() < 0.03:
                # one pumped word: a short unit or pair of units repeated 8-40 times (NsNsNs...): fixed-size buffers per word
                short = [e for e in single if len(e["word"]) <= 2 and (e["bare"] or rng.random() < 0.3)]      # (also prefixed two-letter words: hs, cm, dl)
                for _try in range(8):
                    base = [rng.choice(short) for _ in range(rng.choice([1, 2, 2]))]
                    bw = "".join(e["word"] for e in base)
                    # (only bases whose repetitions have few segmentations: the oracle enumerates every reading of the word, and a base
                    # with interval-valued or many-valued pieces has exponentially many - a monitor cost, not a property of the tool)
                    if len(R.readings(bw * 3)) <= 8 and len(R.readings(bw * 5)) <= 16:
                        break
                else:
                    continue
                es = base * (rng.choice([8, 9, 12, 16, 17, 20, 33][: 7 if len(base) == 1 else 5]) if rng.random() < 0.5 else rng.randint(2, 40 if len(base) == 1 else 24))
            elif len({e["key"] for e in es}) != k:
                continue
            w = "".join(e["word"] for e in es)
            reqs.append({"op": "query", "q": "1 " + w})
            meta.append(("concat", w, None))
        for _ in range(p["n_expr"]):
            k = rng.randint(2, 5) if rng.random() < 0.96 else rng.choice([8, 12, 20])
            es, keys = [], {}
            for _ in range(k):
                e = rng.choice(single)
                if e["key"] in keys:
                    if rng.random() < 0.5:
                        continue
                    e = keys[e["key"]]          # the same word again (same prefix): powers accumulate
                keys[e["key"]] = e
                es.append(e)
            if rng.random() < 0.15:
                es.append(rng.choice(es))       # a repeated unit on purpose: m/m^2, s*s^2, ...
            forced_pw = {}
            if rng.random() < 0.2:
                # the same unit again under ANOTHER prefix (km/m, g*kg, mm^2/km^2): a tool may refuse the mix, but if it accepts
                # it, both prefixes count; half of the time the powers are chosen to cancel exactly (seed C05-b)
                e0 = rng.choice(es)
                alts = by_key.get(e0["key"], [])
                alts = [a for a in alts if a["prefix"] != e0["prefix"]]
                if alts:
                    e1 = rng.choice(alts)
                    es.insert(rng.randint(0, len(es)), e1)
                    if rng.random() < 0.5:
                        forced_pw = {id(e0): 1, id(e1): -1} if rng.random() < 0.6 else {id(e0): 2, id(e1): -2}
            if len(es) < 2:
                continue
            slash_at = {rng.randint(1, len(es) - 1)} if rng.random() < 0.6 else set()
            if slash_at and len(es) > 2 and rng.random() < 0.25:
                slash_at.add(rng.randint(1, len(es) - 1))      # a second `/`: everything after the first one stays inverted
            text, sign, want_v, want_d = "", 1, F(1), R.ZERO_DIMS
            parts_w = []
            for i, e in enumerate(es):
                if i:
                    if i in slash_at:
                        text += "/"
                        sign = -1
                    else:
                        sep = rng.choice(["*", "*", " ", " ", "  ", c06.blank_run(rng), c06.blank_run(rng)])
                        text += sep
                pw = rng.choice([1, 1, 1, 2, 3, -1, -2])
                if id(e) in forced_pw:
                    pw = forced_pw[id(e)] * sign      # net power +p resp. -p whatever side of the slash it is on
                text += e["word"] if pw == 1 else "%s^%d" % (e["word"], pw)
                want_v *= (V.scale[e["key"]] * F(10) ** e["prefix"]) ** (pw * sign)
                want_d = R.add_dims(want_d, e["dims"], pw * sign)
                parts_w.append([e["key"], pw * sign, e["prefix"]])
            reqs.append({"op": "query", "q": "1 " + text})
            meta.append(("expr", text, (want_v, want_d, sorted(parts_w))))
            plain = " ".join(text.split())
            if plain != text:
                # the same expression with every blank run replaced by one space: the kind and number of blanks must not matter
                reqs.append({"op": "query", "q": "1 " + plain})
                meta.append(("expr-plain", plain, text))
        reps = []
        for i in range(0, len(reqs), 3000):
            reps += d.call_many(reqs[i:i + 3000], timeout=300)
        prev_items = None
        for (kind, text, want), rep in zip(meta, reps):
            if kind == "expr-plain":
                acc.evaluations += 1
                acc.count("blank_run_vs_single_space_compared")
                strip = lambda its: [({"ok": [it["ok"]["v"], it["ok"]["u"]]} if "ok" in it else {"err": it["err"]["msg"]}) for it in (its or [])]
                a, b = strip(prev_items), strip(rep.get("items"))
                a_ok, b_ok = [x for x in a if "ok" in x], [x for x in b if "ok" in x]
                if a_ok != b_ok or (len(a) == 1) != (len(b) == 1):
                    acc.violate("c05:expression-structure:blank-kind", "`1 %s` gives %s but with single spaces (`1 %s`) it gives %s: the kind or number of blanks between unit terms changes the reading" % (want, a[:3], text, b[:3]),
                                {"unit_expression": want, "build": p["kind"], "with_single_spaces": text, "observed": a, "observed_single_spaces": b})
                continue
            prev_items = rep.get("items")
            acc.evaluations += 1
            case = {"unit_expression": text, "build": p["kind"]}
            if "panic" in rep:
                acc.violate("c05:panic:" + str(rep.get("panic_loc")), "%r panicked: %s" % (text, rep["panic"]), dict(case, observed=rep["panic"]))
                continue
            items = rep.get("items") or []
            if len(items) != 1 or "ok" not in items[0]:
                acc.count(kind + "_rejected")
                continue
            acc.count(kind + "_accepted")
            acc.nontriv(text)
            (sv, dims), parts = reading_of(V, items[0])
            case["observed_parts"] = parts
            if kind == "concat":
                if not R.reading_matches(text, sv, dims):
                    fb = R.fallback_node(text)
                    acc.violate("c05:lexer-fallback" if fb else "c05:concat-reading:" + text, "%r is read as %s = %s [%s], which is no product of [prefix]name readings of its pieces" % (text, parts, sv, G.si.fmt_dims(dims)), case)
            else:
                wv, wd, wp = want
                if (sv, dims) != (wv, wd):
                    words_ = [w for w in text.replace("/", " ").replace("*", " ").split() if w]
                    names_ = [w.split("^")[0] for w in words_]
                    kind_ = ("repeated-unit" if len(set(names_)) < len(names_) else "") + ("mixed-prefix" if len({(x[0], x[2]) for x in wp}) > len({x[0] for x in wp}) else "") + ("two-slashes" if text.count("/") > 1 else "")
                    acc.violate("c05:expression-structure" + (":" + kind_ if kind_ else ""), "`1 %s` is %s [%s] in SI; multiplying/inverting/raising as written gives %s [%s]" % (text, sv, G.si.fmt_dims(dims), wv, G.si.fmt_dims(wd)), dict(case, expected_parts=wp))
                else:
                    acc.sample({"unit_expression": text, "read_as": parts}, cap=1)
    finally:
        d.close()
    return acc

def concat_shard(p):
    """Judges the one-word concatenations that read differently from the product of their two pieces (reported by the in-process
    sweep): the reading must be SOME product of [prefix]name readings of the word's pieces."""
    acc = Acc()
    d = Driver(p["bin"])
    try:
        V = G.Vocab(d, include_offset=True)
    finally:
        d.close()
    for item in p["items"]:
        acc.evaluations += 1
        w = item["word"]
        case = {"word": w, "pieces": [item.get("a"), item.get("b")], "build": p["kind"]}
        if "panic" in item:
            acc.violate("c05:panic:concat", "word %r panicked: %s" % (w, item["panic"]), dict(case, observed=item["panic"]))
            continue
        parts = [list(x) for x in item["u"]]
        try:
            sv, dims = V.normalise(1, [tuple(x) for x in parts], allow_offset_as_interval=True)
        except Exception as ex:
            acc.inconc("cannot normalise %r: %r" % (w, ex))
            continue
        case["observed_parts"] = parts
        acc.nontriv(w)
        if not R.reading_matches(w, sv, dims):
            fb = R.fallback_node(w)
            bad = [k for k, _, _ in parts if k in p["bad_keys"]]
            if bad:
                acc.violate("c05:unit-scale:%s" % p["bad_keys"][bad[0]], "word %r inherits a non-standard unit scale" % w, case)
            else:
                acc.violate("c05:lexer-fallback" if fb else "c05:concat-reading:" + w, "%r is read as %s = %s [%s], which is no product of [prefix]name readings of its pieces" % (w, parts, sv, G.si.fmt_dims(dims)), case)
    return acc

def all_words():
    names = sorted(R.NAME2UNITS)
    prefixes = [""] + sorted(R.PREFIXES)
    typeable, untypeable = [], 0
    for px in prefixes:
        for n in names:
            w = px + n
            if R.typeable(w):
                typeable.append(w)
            else:
                untypeable += 1
    # prefix spellings on their own (must only be accepted where they are also a unit name)
    for px in sorted(R.PREFIXES):
        if R.typeable(px) and px not in R.NAME2UNITS:
            typeable.append(px)
    return sorted(set(typeable)), untypeable

def run(tier, seed):
    t0 = time.time()
    bins = {k: build.build(k)["vdriver"] for k in ("dbg", "rel")}
    words, untypeable = all_words()
    c06.TOOL_BLANKS[:] = c06.discover_blanks(bins["dbg"])     # the characters this build's lexer treats as blanks (see c06.discover_blanks)
    nc, ne = (3000, 6000) if tier == "quick" else (100000, 200000)
    payloads = [{"seed": seed, "shard": i, "words": words[i::NCPU], "n_concat": nc // NCPU, "n_expr": ne // NCPU, "bin": bins["dbg"], "kind": "dbg"} for i in range(NCPU)]
    acc = run_shards(shard, payloads)
    # (5) every [prefix]name word x every name written as ONE word (2.2 million words, swept in-process): agreeing with `a*b` is
    # fine, being refused is fine; the ~1 % that read differently are judged by the segmentation oracle
    names = [n for n in sorted(R.NAME2UNITS) if R.typeable(n)]
    with Driver(bins["rel"]) as d:
        rep = d.call({"op": "c05_concat", "a": words, "b": names, "threads": NCPU}, timeout=3600)
    acc.counters["concat_sweep_words"] = rep["pairs"]
    acc.counters["concat_sweep_accepted"] = rep["accepted"]
    acc.counters["concat_sweep_same_as_product"] = rep["agree_with_product"]
    acc.counters["concat_sweep_judged_by_oracle"] = len(rep["differing"])
    acc.evaluations += rep["agree_with_product"]
    bad = {k.split(":")[2].split("=")[0]: k.split(":", 2)[2] for k in []}
    bad_keys = {}
    for u in R.U.values():
        for v in acc.violations:
            if v["sig"].startswith("c05:unit-scale:%s=" % u["name"]):
                bad_keys[u["key"]] = v["sig"].split(":", 2)[2]
    items = rep["differing"]
    acc.merge(run_shards(concat_shard, [{"items": items[i::NCPU], "bin": bins["dbg"], "kind": "rel", "bad_keys": bad_keys} for i in range(NCPU)]))
    return finish(PID, tier, seed, "exploration", acc, RULE, t0,
                  assumptions=["the reference table (monitors/core/units_ref.py) is right: every entry cites its standard, multi-reading sets and intervals where standards differ",
                               "any prefix may combine with any unit name (generous reading set)"],
                  extra={"words_typeable": len(words), "words_untypeable_not_sent": untypeable, "cross_product": "(40 prefix spellings + none) x 239 names"},
                  exhaustive=True, min_eval=1000)

def replay(path):
    v = json.load(open(path))
    c = v["case"]
    q = c.get("query") or ("1 " + (c.get("word") or c.get("unit_expression")))
    with Driver(build.build(c.get("build", "dbg"))["vdriver"]) as d:
        print(json.dumps({"query": q, "now": d.call({"op": "query", "q": q}).get("items")}, ensure_ascii=False))
    return 0
