"""C17 - stored facts and units survive serialisation unchanged."""
import json, os, time
from core import build, units_ref as R, facts as FX
from core.driver import Driver
from core.run import Acc, finish, rng_for, VERIF

PID = "C17"
RULE = ("(1) every documented unit (86, exhaustive): parsing its word and serialising gives exactly the frozen unit key (derived id as "
        "shipped at the pinned commit), all ids are distinct, CBOR -> Compound -> CBOR is the identity and displays identically; the "
        "golden blob written by the pinned build decodes to the same structure and display (cross-build read); (2) 300 golden compound "
        "blobs likewise; (3) random compounds over all unit keys with prefixes -24..24 and powers -9..9, and random big rationals "
        "(to 2000 bits, negative, zero) through CBOR and JSON, in-process; (4) every shipped constant decoded as anything::Constant, "
        "re-encoded, decoded and compared field by field with the generic decode (878 of 878). "
        "non-trivial = distinct compound / rational / constant that went through a round trip")

def run(tier, seed):
    t0 = time.time()
    bins = {k: build.build(k)["vdriver"] for k in ("dbg", "rel")}
    golden = json.load(open(os.path.join(VERIF, "ref", "golden_cbor.json")))
    acc = Acc()
    ncomp, nrat, bits = (60000, 20000, 2000) if tier == "quick" else (3000000, 600000, 4000)
    for kind in ("dbg", "rel"):
        with Driver(bins[kind]) as d:
            # (1) units
            ids = {}
            for u in R.U.values():
                g = golden["units"][u["name"]]
                acc.evaluations += 1
                acc.nontriv("unit:" + u["name"] + kind)
                want = [[u["key"], 1, -3 if u["name"] == "Gram" else 0]]
                case = {"unit": u["name"], "word": g["word"], "build": kind}
                r = d.call({"op": "compound", "s": g["word"]})
                if "ok" not in r:
                    acc.violate("c17:unit-unparsable:" + u["name"], "unit word %r does not parse: %s" % (g["word"], r), dict(case, observed=r))
                    continue
                if r["ok"]["u"] != want:
                    acc.violate("c17:unit-id:" + u["name"], "unit %s serialises as %s, its stable identifier is %s" % (u["name"], r["ok"]["u"], want), dict(case, observed=r["ok"]["u"]))
                    continue
                ids.setdefault(r["ok"]["u"][0][0], []).append(u["name"])
                if r["ok"]["cbor"] != g["hex"]:
                    acc.violate("c17:unit-encoding-changed:" + u["name"], "unit %s now encodes as %s, the pinned build wrote %s" % (u["name"], r["ok"]["cbor"], g["hex"]), case)
                rt = d.call({"op": "compound_rt", "parts": want})
                if "ok" not in rt or rt["ok"] != r["ok"]["disp"]:
                    acc.violate("c17:unit-roundtrip:" + u["name"], "unit %s: %s (parsed display %r)" % (u["name"], rt, r["ok"]["disp"]), dict(case, observed=rt))
                dec = d.call({"op": "cbor_decode_compound", "hex": g["hex"]})
                if "ok" not in dec or dec["ok"]["u"] != g["parts"] or dec["ok"]["disp"] != g["display"]:
                    acc.violate("c17:golden-unit:" + u["name"], "the blob the pinned build wrote for %s now reads as %s (was %s %r)" % (u["name"], dec, g["parts"], g["display"]), dict(case, observed=dec))
            for k, names in ids.items():
                if len(names) > 1 and k != "KiloGram":
                    acc.violate("c17:duplicate-id:" + k, "units %s share the identifier %s" % (names, k), {"units": names})
            acc.counters["units_checked_" + kind] = len(R.U)
            # (2) golden compounds
            for g in golden["compounds"]:
                acc.evaluations += 1
                acc.nontriv("golden:" + g["text"] + kind)
                dec = d.call({"op": "cbor_decode_compound", "hex": g["hex"]})
                if "ok" not in dec or sorted(dec["ok"]["u"]) != sorted(g["parts"]) or dec["ok"]["disp"] != g["display"]:
                    acc.violate("c17:golden-compound", "the blob the pinned build wrote for %r now reads as %s (was %s %r)" % (g["text"], dec, g["parts"], g["display"]), {"text": g["text"], "hex": g["hex"], "observed": dec})
                r = d.call({"op": "compound", "s": g["text"]})
                if "ok" in r and r["ok"]["cbor"] != g["hex"]:
                    acc.violate("c17:compound-encoding-changed", "%r now encodes differently from the pinned build" % g["text"], {"text": g["text"], "observed": r["ok"]["cbor"], "pinned": g["hex"]})
            # (2b) identifiers that are not units (the neighbours of every shipped id, random ones) are refused EVERY time they are
            # decoded, on a thread that keeps decoding real units in between
            known_d = sorted(k for k in R.KEY2UNIT if k.startswith("D:"))
            ids_ = {int(k[2:], 16) for k in known_d}
            rngu = rng_for(seed, PID, "unknown", kind)
            unk = sorted({(i + dlt) % 2 ** 32 for i in ids_ for dlt in (-2, -1, 1, 2)} - ids_) + [rngu.randrange(2 ** 32) for _ in range(200)]
            unk = [u for u in unk if u not in ids_]
            rep = d.call({"op": "c17_unknown_ids", "known": known_d, "unknown": ["D:%08x" % u for u in unk], "repeats": 3}, timeout=600)
            if "accepted" not in rep:
                acc.violate("c17:unknown-id:panic", "decoding identifiers that are not units: %s" % (rep,), {"observed": rep, "build": kind})
            else:
                acc.evaluations += rep["unknown"]
                acc.counters["identifiers_that_are_not_units_decoded_three_times_" + kind] = rep["unknown"]
                for a in rep["accepted"]:
                    acc.violate("c17:unknown-id-accepted", "identifier %s is not a unit but decoded (attempt %d) as `%s`" % (a["id"], a["attempt"], a["decoded_as"]), dict(a, build=kind))
            # (3) in-process random sweeps
            keys = sorted(set(R.KEY2UNIT))
            rep = d.call({"op": "c17_compounds", "keys": keys, "count": ncomp, "seed": seed}, timeout=7200)
            acc.evaluations += rep["count"]
            acc.counters["random_compounds_" + kind] = rep["count"]
            acc.counters["compounds_changed_through_update_before_writing_" + kind] = rep.get("changed_through_update", 0)
            acc.counters["compounds_written_with_a_cancelled_unit(power 0)_" + kind] = rep.get("written_with_a_cancelled_unit", 0)
            for i in range(rep["distinct"]):
                acc.nontrivial.add(("c", kind, i))
            for v in rep["violations"]:
                acc.violate("c17:compound-roundtrip", "%s: %s" % (v["parts"], v["what"]), dict(v, build=kind))
            acc.violation_count += max(0, rep["violation_count"] - len(rep["violations"]))
            for s in rep["sample"][:2]:
                acc.sample({"compound": s}, cap=6)
            rep = d.call({"op": "c17_rationals", "count": nrat, "seed": seed, "max_bits": bits}, timeout=7200)
            acc.evaluations += rep["count"]
            acc.counters["random_rationals_" + kind] = rep["count"]
            for i in range(rep["distinct"]):
                acc.nontrivial.add(("r", kind, i))
            for v in rep["violations"]:
                acc.violate("c17:rational-roundtrip", "%s/%s: %s" % (v["n"][:60], v["d"][:60], v["what"]), dict(v, build=kind))
            acc.violation_count += max(0, rep["violation_count"] - len(rep["violations"]))
            for s in rep["sample"][:1]:
                acc.sample({"rational": [s[0][:80], s[1][:80]]}, cap=6)
            # (3b) synthetic constants: random units (a third of them with dimensions that cancel completely - Sv/Gy, l/dm^3,
            # century/hyr: a decoder that "normalises" such a unit away changes the constant, seed C17-f), values, words, sources
            rngc = rng_for(seed, PID, "constants", kind)
            units = [u for u in R.U.values()]
            by_dims = {}
            for u in units:
                by_dims.setdefault(tuple(u["dims"]), []).append(u)
            PX = [0, 0, 0, 3, -3, -2, -1, 1, 2, 6, -6, 9, 12, -9, 24, -24]
            cases = []
            for _ in range(3000 if tier == "quick" else 60000):
                parts, keys = [], set()
                if rngc.random() < 0.35:
                    grp = rngc.choice([g for g in by_dims.values() if len(g) > 1])
                    a, b = rngc.sample(grp, 2)
                    pw = rngc.choice([1, 1, 2, 3])
                    parts += [[a["key"], pw, rngc.choice(PX)], [b["key"], -pw, rngc.choice(PX)]]
                    keys |= {a["key"], b["key"]}
                for _k in range(rngc.choice([0, 0, 1, 2, 3])):
                    u = rngc.choice(units)
                    if u["key"] in keys:
                        continue
                    keys.add(u["key"])
                    parts.append([u["key"], rngc.choice([1, 1, -1, 2, -2, 3]), rngc.choice(PX)])
                if parts and all(p[0] == "KiloGram" for p in parts):
                    pass
                n = rngc.choice([0, 1, -1, rngc.randint(-10 ** 6, 10 ** 6), rngc.randint(-10 ** 40, 10 ** 40)])
                dd = rngc.choice([1, 1, 2, 10 ** rngc.randint(0, 30), rngc.randint(1, 10 ** 12)])
                cases.append({"parts": parts, "n": str(n), "d": str(dd), "tokens": rngc.sample(["mass", "of", "x", "é", "a b", ""], rngc.randint(0, 3)),
                              "description": rngc.choice(["", "A synthetic constant", "Größe (π)"]), "source": rngc.choice([None, 0, 1, 2 ** 40])})
            for i in range(0, len(cases), 1000):
                rep = d.call({"op": "c17_constants", "cases": cases[i:i + 1000]}, timeout=3600)
                acc.evaluations += rep["count"]
                acc.count("synthetic_constants_" + kind, rep["count"])
                for v in rep["violations"]:
                    acc.violate("c17:constant-roundtrip:synthetic", "synthetic constant with unit %s: %s" % (v["case"]["parts"], v["what"]), dict(case=v["case"], what=v["what"], build=kind))
                acc.violation_count += max(0, rep["violation_count"] - len(rep["violations"]))
            # (4) shipped constants
            facts, sources = FX.load(d, roundtrip=True)
            ok = 0
            for f in facts:
                acc.evaluations += 1
                acc.nontriv("const:" + str(f["description"]) + kind)
                if f["roundtrip"] is not None:
                    acc.violate("c17:constant-roundtrip", "constant %r: %s" % (f["description"], f["roundtrip"]), {"constant": f["description"], "what": f["roundtrip"]})
                elif not f["typed"]:
                    acc.violate("c17:constant-undecodable", "constant %r does not decode as anything::Constant" % (f["description"],), {"constant": f["description"]})
                else:
                    ok += 1
                    try:
                        for key, _, _ in f["typed"]["u"]:
                            if key not in R.KEY2UNIT:
                                acc.violate("c17:constant-unknown-unit", "constant %r uses unit key %s which is not a shipped identifier" % (f["description"], key), {"constant": f["description"]})
                    except Exception:
                        pass
            acc.counters["constants_survived_" + kind] = ok
            acc.counters["constants_shipped"] = len(facts)
            if len(facts) != 878:
                acc.violate("c17:constant-count", "%d constants decode from the shipped files, 878 were shipped at the pinned commit" % len(facts), {"count": len(facts)})
    return finish(PID, tier, seed, "exploration", acc, RULE, t0,
                  assumptions=["ref/golden_cbor.json was written by the pinned build; unit ids come from the frozen reference table",
                               "serde_cbor::Value is a faithful generic view of the encoded bytes"],
                  exhaustive=True, min_eval=1000)

def replay(path):
    v = json.load(open(path))
    print(json.dumps(v["case"], ensure_ascii=False)[:2000])
    return 0
