"""C07 - decimal literals are read exactly (number parser and query language agree with the spelling)."""
import json, time
from fractions import Fraction
from core import build, exact, boundary
from core.driver import Driver
from core.run import Acc, finish, rng_for, run_shards, NCPU

PID = "C07"
SYMBOLS = "017+-.eE%"
RULE = ("exhaustive: every string up to the stated length over {0,1,7,+,-,.,e,E,%} is enumerated in-process (of the literals whose exponent has five "
        "or more significant digits - 1e777777 costs seconds - every 64th is executed and the rest is counted); the well-formed "
        "literals ([+-]? (D+ ('.' D*)? | '.' D+) ([eE] [+-]? D+)? '%'?) are read by str::parse::<Rational> and as a query and both "
        "compared with an independent reader on BigInt (digit string shifted by fraction length and exponent); a sample is "
        "re-judged by a second oracle in Python (Fraction). random: literals with up to hundreds of digits / exponents to +-400. "
        "non-trivial = distinct literal that is not a plain unsigned integer without leading zero (exhaustive part: distinct values read)")

def gen_long(rng, max_digits, max_exp):
    if rng.random() < 0.08:
        t = boundary.terminating_literal(rng)      # exact decimal spellings of k / (2^a 5^b)
        return t + ("%" if rng.random() < 0.1 else "")
    if rng.random() < 0.1:
        # machine-word / limb boundaries (2^64, 2^128, 10^19 ...) as plain, pointed, exponent and padded literals
        t = boundary.literal(rng)
        if rng.random() < 0.1:
            t += "%"
        return t
    nd = rng.choice([1, 2, 5, 17, 40, rng.randint(1, max_digits)])
    if rng.random() < 0.003:
        nd = rng.choice([600, 1000, 1500])        # a few very long ones
    i = "".join(rng.choice("0123456789") for _ in range(nd))
    if rng.random() < 0.3:
        i = "0" * rng.randint(1, 5) + i
    r = rng.random()
    if r < 0.25:
        t = i
    elif r < 0.35:
        t = i + "."
    elif r < 0.45:
        t = "." + i
    else:
        nf = rng.choice([1, 2, 9, rng.randint(1, max_digits)])
        f = "".join(rng.choice("0123456789") for _ in range(nf))
        if rng.random() < 0.3:
            f = f + "0" * rng.randint(1, 6)
        if rng.random() < 0.2:
            f = "0" * rng.randint(1, 8) + f
        t = i + "." + f
    if rng.random() < 0.5:
        e = rng.choice([0, 1, rng.randint(0, max_exp)])
        es = str(e)
        if rng.random() < 0.2:
            es = "0" * rng.randint(1, 3) + es
        elif rng.random() < 0.04:
            es = "0" * rng.randint(10, 60) + es       # a long zero-padded exponent field (fixed-width machine notation)
        t += rng.choice("eE") + rng.choice(["", "+", "-"]) + es
    if rng.random() < 0.35:
        t = rng.choice("+-") + t
    if rng.random() < 0.1:
        t += "%"
    return t

def gen_run(rng, lengths):
    """A literal with ONE digit run whose length sits on a power of two (1023..1025, 2047..2049, 4095..4097): the integer part, the
    fraction, or a fraction that starts with zeros - bulk conversions of long runs switch paths at such lengths (seed C07-h: a
    run of >= 2048 digits converted in one go, place count taken after stripping its leading zeros)."""
    L = rng.choice(lengths)
    run = "".join(rng.choice("0123456789") for _ in range(L))
    form = rng.randint(0, 5)
    if form == 0:
        t = run.lstrip("0") or "7"
    elif form == 1:
        t = "000" + run
    elif form == 2:
        t = str(rng.randint(0, 99)) + "." + run
    elif form == 3:
        z = rng.choice([1, 1, 2, 3, 17])
        t = str(rng.randint(0, 9)) + "." + "0" * z + run[z:]          # the run starts with zeros
    elif form == 4:
        t = "." + "0" + run[1:-1] + "5"
    else:
        t = run[: L // 2] + "." + run[L // 2:]
    if rng.random() < 0.3:
        t += rng.choice("eE") + rng.choice(["", "+", "-"]) + str(rng.randint(0, 40))
    if rng.random() < 0.3:
        t = rng.choice("+-") + t
    if rng.random() < 0.1:
        t += "%"
    return t

def shard(p):
    acc = Acc()
    rng = rng_for(p["seed"], PID, p["shard"])
    lits = [gen_long(rng, p["digits"], p["max_exp"]) for _ in range(p["n"])]
    lits += [gen_run(rng, [1023, 1024, 1025, 2047, 2048, 2049]) for _ in range(p.get("n_runs", 3))]
    rel_only = [gen_run(rng, [4095, 4096, 4097]) for _ in range(p.get("n_runs_rel", 1))]
    acc.count("literals_with_a_digit_run_at_a_power_of_two_length", len(lits[-p.get("n_runs", 3):]) + len(rel_only))
    for kind in p["builds"]:
        with Driver(p["bins"][kind]) as d:
            if kind == "rel":
                lits = lits + rel_only          # (the tool's digit loop is cubic in debug builds: the longest runs go to the release build only)
            for i in range(0, len(lits), 500):
                chunk = lits[i:i + 500]
                rep = d.call({"op": "c07_list", "literals": chunk}, timeout=600)
                if "read" not in rep:
                    acc.inconc(repr(rep)[:300])
                    continue
                for v in rep["violations"]:
                    acc.violate("c07:inproc:" + v["what"].split(" but ")[0][:60], "%s: %r (%s)" % (v["what"][:300], v["input"][:120], kind),
                                {"literal": v["input"], "build": kind})
                acc.violation_count += max(0, rep["violation_count"] - len(rep["violations"]))
                for lit, n, dn in rep["read"]:
                    acc.evaluations += 1
                    if not lit.isdigit() or lit.startswith("0"):
                        acc.nontriv(lit)
                    if n is None:
                        continue  # already reported by the in-process oracle
                    body = lit[:-1] if lit.endswith("%") else lit
                    want = exact.lit_from_text(body)
                    got = Fraction(int(n), int(dn))
                    acc.count("python_rejudged")
                    if got != want:
                        acc.violate("c07:python:wrong-value", "number parser read %r as %s, it spells %s (%s)" % (lit[:120], got, want, kind),
                                    {"literal": lit, "build": kind})
                if kind == p["builds"][0] and i == 0:
                    acc.sample({"literal": chunk[0], "read": rep["read"][0][1:]}, cap=1)
    # near-duplicate literals in ONE query: the same digits with zeros appended to the exponent or the fraction, an explicit plus sign,
    # the other case of the exponent letter, a leading zero - as separate expressions and as the two operands of a quotient. Each
    # literal denotes its own number whatever else the query contains (seed C07-i: a per-query memo of literals keyed by a "canonical"
    # spelling that strips the zeros of the exponent along with those of the fraction)
    pairs = []
    for _ in range(p.get("n_pairs", 120)):
        nd, nf = rng.randint(1, 9), rng.randint(1, 12)
        body = "".join(rng.choice("0123456789") for _ in range(nd)).lstrip("0") or "6"
        body += "." + "".join(rng.choice("0123456789") for _ in range(nf - 1)) + rng.choice("123456789")
        ex = rng.choice(["e", "E"]) + rng.choice(["", "+", "-"]) + str(rng.randint(1, 30))
        a = body + ex
        b = rng.choice([body + ex + "0", body + "0" + ex, body + ex + "00", "+" + a, a.swapcase(), "0" + a, body + "00" + ex + "0", body + ex[:1] + ex[1:].replace("-", "").replace("+", "")])
        if a == b:
            continue
        if rng.random() < 0.5:
            a, b = b, a
        pairs.append((a, b))
    # ... and a well-formed literal behind one that the number reader REFUSES (an exponent beyond its range, a second point, a dangling
    # exponent) in the same query: a buffer that the error path leaves dirty meets the next literal (seed C07-j)
    bad_first = []
    for _ in range(p.get("n_pairs", 120) // 2):
        bad = rng.choice(["1e99999999999%", "1e99999999999", "2.5e-99999999999%", "1e5.5%", "5e-%", "1..2", "7e+", "3e99999999999999999999%", "1e4294967300", ".e5%"])
        nd = rng.randint(1, 6)
        good = "".join(rng.choice("123456789") for _ in range(nd)) + rng.choice(["", ".5", ".25"]) + rng.choice(["", "e3", "E-2", "e+10"]) + rng.choice(["%", "%", "", " %"])
        bad_first.append((bad, good))
    if bad_first:
        with Driver(p["bins"][p["builds"][0]]) as d:
            reps_b = d.call_many([{"op": "query", "q": "(%s) (%s) (%s)" % (b_, g_, g_)} for b_, g_ in bad_first], timeout=300)
        for (b_, g_), rep in zip(bad_first, reps_b):
            acc.evaluations += 1
            acc.count("well_formed_literal_behind_a_refused_one")
            its = rep.get("items") or []
            want = exact.lit_from_text(g_.replace(" ", "").rstrip("%")) / (100 if g_.strip().endswith("%") else 1)
            got = [Fraction(int(x["ok"]["v"][0]), int(x["ok"]["v"][1])) if "ok" in x else None for x in its]
            if len(its) >= 2 and got[-2:] != [want, want] and not all(x is None for x in got):
                acc.violate("c07:literal-behind-a-refused-one", "`(%s) (%s) (%s)` read as %s, the last two spell %s" % (b_, g_, g_, got, want), {"literal": "(%s) (%s) (%s)" % (b_, g_, g_), "build": p["builds"][0]})
            elif len(its) == 3 and got[1:] != [want, want]:
                acc.violate("c07:literal-behind-a-refused-one", "`(%s) (%s) (%s)` read as %s, the last two spell %s" % (b_, g_, g_, got, want), {"literal": "(%s) (%s) (%s)" % (b_, g_, g_), "build": p["builds"][0]})
    if pairs:
        with Driver(p["bins"][p["builds"][0]]) as d:
            reqs = []
            for a, b in pairs:
                reqs += [{"op": "query", "q": "(%s) (%s)" % (a, b)}, {"op": "query", "q": "%s / %s" % (a, b)}]
            reps = d.call_many(reqs, timeout=300)
        for i, (a, b) in enumerate(pairs):
            va, vb = exact.lit_from_text(a), exact.lit_from_text(b)
            acc.evaluations += 2
            acc.count("near_duplicate_literal_pairs_in_one_query")
            acc.nontriv("%s|%s" % (a, b))
            it1, it2 = reps[2 * i].get("items") or [], reps[2 * i + 1].get("items") or []
            got1 = [Fraction(int(x["ok"]["v"][0]), int(x["ok"]["v"][1])) if "ok" in x else None for x in it1]
            if got1 != [va, vb]:
                acc.violate("c07:pair-in-one-query:separate", "`(%s) (%s)` read as %s, the literals spell %s and %s" % (a, b, got1, va, vb), {"literal": "(%s) (%s)" % (a, b), "build": p["builds"][0]})
            elif vb != 0:
                got2 = [Fraction(int(x["ok"]["v"][0]), int(x["ok"]["v"][1])) if "ok" in x else None for x in it2]
                if got2 != [va / vb]:
                    acc.violate("c07:pair-in-one-query:quotient", "`%s / %s` is %s, the literals spell %s / %s" % (a, b, got2, va, vb), {"literal": "%s / %s" % (a, b), "build": p["builds"][0]})
    return acc

def run(tier, seed):
    t0 = time.time()
    bins = {k: build.build(k)["vdriver"] for k in ("dbg", "rel")}
    acc = Acc()
    plans = [("dbg", 6), ("rel", 7)] if tier == "quick" else [("dbg", 7), ("rel", 8)]
    done = {}
    for kind, L in plans:
        with Driver(bins[kind]) as d:
            rep = d.call({"op": "c07_sweep", "symbols": SYMBOLS, "max_len": L, "sample_every": 400, "threads": NCPU, "max_exp_digits": 4}, timeout=6 * 3600)
        if "well_formed" not in rep:
            acc.inconc(repr(rep)[:300])
            continue
        acc.evaluations += rep["well_formed"]
        acc.count("strings_enumerated", rep["strings"])
        acc.count("well_formed_literals_" + kind, rep["well_formed"])
        acc.count("with_percent", rep["with_percent"])
        acc.count("exponents_of_5_or_more_digits_not_executed_(1_in_64_is)", rep.get("huge_exponent_skipped", 0))
        acc.count("parser_checked", rep["parser_checked"])
        acc.count("query_checked", rep["query_checked"])
        done["%s:len<=%d" % (kind, L)] = rep["well_formed"]
        for i in range(rep["distinct_values"]):
            acc.nontrivial.add(("v", i))
        for v in rep["violations"]:
            acc.violate("c07:inproc:" + v["what"].split(" but ")[0][:60], "%s: %r (%s, exhaustive len<=%d)" % (v["what"][:300], v["input"], kind, L),
                        {"literal": v["input"], "build": kind})
        acc.violation_count += max(0, rep["violation_count"] - len(rep["violations"]))
        for lit, n, dn in rep["sample"]:
            acc.count("python_rejudged")
            want = exact.lit_from_text(lit)
            if Fraction(int(n), int(dn)) != want:
                acc.violate("c07:python:wrong-value", "number parser read %r as %s/%s, it spells %s (%s)" % (lit, n, dn, want, kind), {"literal": lit, "build": kind})
        for s in rep["sample"][:3]:
            acc.sample({"literal": s[0], "read": s[1:]}, cap=4)
    n = 16000 if tier == "quick" else 400000
    payloads = [{"seed": seed, "shard": i, "n": n // NCPU, "digits": 400, "max_exp": 400, "builds": ["dbg", "rel"], "bins": bins} for i in range(NCPU)]
    acc.merge(run_shards(shard, payloads))
    return finish(PID, tier, seed, "exploration", acc, RULE, t0,
                  assumptions=["num::BigInt arithmetic (in-process oracle) and Python Fraction (second oracle) are exact",
                               "three digit classes {0,1,7} suffice for the exhaustive part: the reader's control flow only distinguishes zero / non-zero digits"],
                  extra={"completed_exhaustive_spaces": done}, exhaustive=True, min_eval=1000)

def replay(path):
    v = json.load(open(path))
    c = v["case"]
    with Driver(build.build(c.get("build", "dbg"))["vdriver"]) as d:
        print(json.dumps(d.call({"op": "c07_list", "literals": [c["literal"]]}), ensure_ascii=False)[:2000])
    return 0
