//! Turning results of the real API into plain JSON observations.

use anything::rational::DisplaySpec;
use anything::{Compound, Rational};
use serde_cbor::Value as Cbor;
use serde_json::{json, Value};

/// The unit key of a CBOR-serialised `Unit`: `"Meter"` or `"D:<id hex>"`.
fn unit_key(v: &Cbor) -> String {
    match v {
        Cbor::Text(s) => s.clone(),
        Cbor::Map(m) => {
            for (k, v) in m {
                if let (Cbor::Text(k), Cbor::Integer(i)) = (k, v) {
                    if k == "Derived" {
                        return format!("D:{:08x}", *i as u32);
                    }
                }
            }
            format!("?{:?}", v)
        }
        other => format!("?{:?}", other),
    }
}

/// Structure of a compound as `[[unit key, power, prefix], ...]`, read through
/// its serde implementation (the type has no accessor for its parts).
pub fn unit_parts(c: &Compound) -> Result<Vec<(String, i64, i64)>, String> {
    let v = serde_cbor::value::to_value(c).map_err(|e| format!("cbor: {e}"))?;
    parts_of_generic(&v)
}

/// The same for an already generic CBOR value (decoded bytes).
pub fn parts_of_generic(v: &Cbor) -> Result<Vec<(String, i64, i64)>, String> {
    let mut out = Vec::new();

    let names = match v {
        Cbor::Map(m) => m
            .iter()
            .find(|(k, _)| matches!(k, Cbor::Text(s) if s == "names"))
            .map(|(_, v)| v.clone()),
        _ => None,
    };

    let names = match names {
        Some(Cbor::Map(m)) => m,
        other => return Err(format!("unexpected compound encoding: {:?}", other)),
    };

    for (k, state) in names {
        let key = unit_key(&k);
        let (mut power, mut prefix) = (0i64, 0i64);

        if let Cbor::Map(m) = state {
            for (k, v) in m {
                if let (Cbor::Text(k), Cbor::Integer(i)) = (k, v) {
                    match k.as_str() {
                        "power" => power = i as i64,
                        "prefix" => prefix = i as i64,
                        _ => {}
                    }
                }
            }
        }

        out.push((key, power, prefix));
    }

    Ok(out)
}

pub fn unit_json(c: &Compound) -> Value {
    match unit_parts(c) {
        Ok(parts) => Value::Array(
            parts
                .into_iter()
                .map(|(k, p, x)| json!([k, p, x]))
                .collect(),
        ),
        Err(e) => json!({ "error": e }),
    }
}

pub fn rational_json(r: &Rational) -> Value {
    json!([r.numer().to_string(), r.denom().to_string()])
}

pub fn display12(r: &Rational) -> String {
    let mut spec = DisplaySpec::default();
    spec.limit = 12;
    spec.exponent_limit = 12;
    spec.show_continuation = true;
    r.display(&spec).to_string()
}

pub fn parse_bigint(s: &str) -> Option<num::BigInt> {
    s.parse::<num::BigInt>().ok()
}
