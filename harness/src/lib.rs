//! Verification harness for udoprog/anything: observation helpers and the
//! in-process monitors that are too hot for a per-item JSON round trip.

pub mod fmtcheck;
pub mod idx;
pub mod literal;
pub mod lossless;
pub mod obs;
pub mod serdert;

/// xorshift64* PRNG, deterministic from a seed.
#[derive(Clone)]
pub struct Rng(pub u64);

impl Rng {
    pub fn new(seed: u64) -> Self {
        let mut r = Rng(seed.wrapping_mul(0x9E3779B97F4A7C15) ^ 0xD1B54A32D192ED03);
        if r.0 == 0 {
            r.0 = 1;
        }
        for _ in 0..4 {
            r.next();
        }
        r
    }
    pub fn next(&mut self) -> u64 {
        let mut x = self.0;
        x ^= x >> 12;
        x ^= x << 25;
        x ^= x >> 27;
        self.0 = x;
        x.wrapping_mul(0x2545F4914F6CDD1D)
    }
    pub fn below(&mut self, n: u64) -> u64 {
        if n == 0 {
            0
        } else {
            self.next() % n
        }
    }
    pub fn range(&mut self, lo: i64, hi: i64) -> i64 {
        lo + self.below((hi - lo + 1) as u64) as i64
    }
    pub fn chance(&mut self, permille: u64) -> bool {
        self.below(1000) < permille
    }
}

use std::sync::Mutex;

static LAST_PANIC: Mutex<Option<String>> = Mutex::new(None);

/// Replace the default hook (which floods stderr) by one that remembers the
/// location of the last panic.
pub fn install_quiet_panic_hook() {
    std::panic::set_hook(Box::new(|info| {
        let loc = info
            .location()
            .map(|l| format!("{}:{}:{}", l.file(), l.line(), l.column()))
            .unwrap_or_default();
        if let Ok(mut g) = LAST_PANIC.lock() {
            *g = Some(loc);
        }
    }));
}

pub fn last_panic_location() -> Option<String> {
    LAST_PANIC.lock().ok().and_then(|g| g.clone())
}

pub fn panic_message(p: &Box<dyn std::any::Any + Send>) -> String {
    let msg = if let Some(s) = p.downcast_ref::<&str>() {
        (*s).to_owned()
    } else if let Some(s) = p.downcast_ref::<String>() {
        s.clone()
    } else {
        "<non-string panic payload>".to_owned()
    };
    match last_panic_location() {
        Some(loc) => format!("{msg} @ {loc}"),
        None => msg,
    }
}
