//! C17 in-process monitor: serialisation round trips.

use anything::{Compound, Constant, Rational};
use num::BigInt;
use serde_cbor::Value as Cbor;
use std::collections::BTreeMap;

/// Unit key as used by the monitors: `"Meter"` or `"D:<hex id>"`.
pub fn key_to_cbor(key: &str) -> Option<Cbor> {
    if let Some(hex) = key.strip_prefix("D:") {
        let id = u32::from_str_radix(hex, 16).ok()?;
        let mut m = BTreeMap::new();
        m.insert(Cbor::Text("Derived".into()), Cbor::Integer(id as i128));
        Some(Cbor::Map(m))
    } else {
        Some(Cbor::Text(key.to_owned()))
    }
}

pub fn compound_value(parts: &[(String, i64, i64)]) -> Option<Cbor> {
    let mut names = BTreeMap::new();

    for (key, power, prefix) in parts {
        let mut state = BTreeMap::new();
        state.insert(Cbor::Text("power".into()), Cbor::Integer(*power as i128));
        state.insert(Cbor::Text("prefix".into()), Cbor::Integer(*prefix as i128));
        names.insert(key_to_cbor(key)?, Cbor::Map(state));
    }

    let mut top = BTreeMap::new();
    top.insert(Cbor::Text("names".into()), Cbor::Map(names));
    Some(Cbor::Map(top))
}

/// Round trip one compound given by parts: value -> Compound -> bytes ->
/// Compound -> value. Returns the display text.
pub fn compound_roundtrip(parts: &[(String, i64, i64)]) -> Result<String, String> {
    let value = compound_value(parts).ok_or("bad key")?;
    let c: Compound =
        serde_cbor::value::from_value(value.clone()).map_err(|e| format!("decode from value: {e}"))?;
    let bytes = serde_cbor::to_vec(&c).map_err(|e| format!("encode: {e}"))?;
    let back: Compound = serde_cbor::from_slice(&bytes).map_err(|e| format!("decode: {e}"))?;

    if back != c {
        return Err(format!("decoded compound `{}` differs from encoded `{}`", back, c));
    }

    let parts_back = crate::obs::unit_parts(&back)?;
    let mut want: Vec<_> = parts.to_vec();
    want.sort();
    let mut got = parts_back;
    got.sort();

    if want != got {
        return Err(format!("structure changed: wrote {:?}, read {:?}", want, got));
    }

    let d1 = c.to_string();
    let d2 = back.to_string();

    if d1 != d2 {
        return Err(format!("display changed: `{d1}` vs `{d2}`"));
    }

    Ok(d1)
}

/// Round trip a rational through CBOR and JSON.
pub fn rational_roundtrip(n: &BigInt, d: &BigInt) -> Result<(), String> {
    let r = Rational::new(n.clone(), d.clone());
    let bytes = serde_cbor::to_vec(&r).map_err(|e| format!("cbor encode: {e}"))?;
    let back: Rational = serde_cbor::from_slice(&bytes).map_err(|e| format!("cbor decode: {e}"))?;

    if back != r {
        return Err(format!(
            "cbor: wrote {}/{} read {}/{}",
            r.numer(),
            r.denom(),
            back.numer(),
            back.denom()
        ));
    }

    let text = serde_json::to_string(&r).map_err(|e| format!("json encode: {e}"))?;
    let back: Rational = serde_json::from_str(&text).map_err(|e| format!("json decode: {e}"))?;

    if back != r {
        return Err(format!(
            "json: wrote {}/{} read {}/{}",
            r.numer(),
            r.denom(),
            back.numer(),
            back.denom()
        ));
    }

    // The value must also be what was asked for (reduced).
    let e = num::BigRational::new(n.clone(), d.clone());
    if r.numer() != e.numer() || r.denom() != e.denom() {
        return Err("constructed rational differs from n/d".into());
    }

    Ok(())
}

/// Decode one shipped constant (generic CBOR map) as `anything::Constant`,
/// re-encode, decode again and compare field by field with the generic view.
pub fn constant_roundtrip(generic: &Cbor) -> Result<(), String> {
    let bytes = serde_cbor::to_vec(generic).map_err(|e| format!("encode generic: {e}"))?;
    let c: Constant = serde_cbor::from_slice(&bytes).map_err(|e| format!("decode: {e}"))?;
    let again = serde_cbor::to_vec(&c).map_err(|e| format!("re-encode: {e}"))?;
    let c2: Constant = serde_cbor::from_slice(&again).map_err(|e| format!("re-decode: {e}"))?;

    if c.source != c2.source
        || c.tokens != c2.tokens
        || c.description != c2.description
        || c.value != c2.value
        || c.unit != c2.unit
    {
        return Err("constant changed across a round trip".into());
    }

    // Field by field against the generic decode.
    let m = match generic {
        Cbor::Map(m) => m,
        _ => return Err("constant is not a map".into()),
    };
    let get = |k: &str| m.get(&Cbor::Text(k.into()));

    match get("description") {
        Some(Cbor::Text(t)) if **t == *c.description => {}
        other => return Err(format!("description mismatch: {:?}", other)),
    }

    match get("tokens") {
        Some(Cbor::Array(a)) => {
            let toks: Vec<String> = a
                .iter()
                .filter_map(|t| match t {
                    Cbor::Text(t) => Some(t.clone()),
                    _ => None,
                })
                .collect();
            if toks.len() != c.tokens.len()
                || toks.iter().zip(c.tokens.iter()).any(|(a, b)| **a != **b)
            {
                return Err("tokens mismatch".into());
            }
        }
        None if c.tokens.is_empty() => {}
        other => return Err(format!("tokens mismatch: {:?}", other)),
    }

    match (get("source"), c.source) {
        (Some(Cbor::Integer(i)), Some(s)) if *i == s as i128 => {}
        (None, None) | (Some(Cbor::Null), None) => {}
        (a, b) => return Err(format!("source mismatch: {:?} vs {:?}", a, b)),
    }

    // value / unit: compare the re-encoded generic value of each field.
    let again_generic: Cbor =
        serde_cbor::from_slice(&again).map_err(|e| format!("generic re-decode: {e}"))?;
    let m2 = match &again_generic {
        Cbor::Map(m) => m,
        _ => return Err("re-encoded constant is not a map".into()),
    };

    for k in ["value", "unit"] {
        let a = m.get(&Cbor::Text(k.into()));
        let b = m2.get(&Cbor::Text(k.into()));
        if a.is_none() || a != b {
            return Err(format!("field `{k}` changed: {:?} vs {:?}", a, b));
        }
    }

    Ok(())
}
