//! C17 in-process monitor: serialisation round trips.

use anything::{Compound, Constant, Rational};
use num::BigInt;
use serde_cbor::Value as Cbor;
use std::collections::BTreeMap;

/// Unit key as used by the monitors: `"Meter"` or `"D:<hex id>"`.
pub fn key_to_cbor(key: &str) -> Option<Cbor> {
    if let Some(hex) = key.strip_prefix("D:") {
        let id = u32::from_str_radix(hex, 16).ok()?;
        let mut m = BTreeMap::new();
        m.insert(Cbor::Text("Derived".into()), Cbor::Integer(id as i128));
        Some(Cbor::Map(m))
    } else {
        Some(Cbor::Text(key.to_owned()))
    }
}

pub fn compound_value(parts: &[(String, i64, i64)]) -> Option<Cbor> {
    let mut names = BTreeMap::new();

    for (key, power, prefix) in parts {
        let mut state = BTreeMap::new();
        state.insert(Cbor::Text("power".into()), Cbor::Integer(*power as i128));
        state.insert(Cbor::Text("prefix".into()), Cbor::Integer(*prefix as i128));
        names.insert(key_to_cbor(key)?, Cbor::Map(state));
    }

    let mut top = BTreeMap::new();
    top.insert(Cbor::Text("names".into()), Cbor::Map(names));
    Some(Cbor::Map(top))
}

/// Round trip one compound given by parts: value -> Compound -> bytes ->
/// Compound -> value. Returns the display text.
pub fn compound_roundtrip(parts: &[(String, i64, i64)]) -> Result<String, String> {
    let value = compound_value(parts).ok_or("bad key")?;
    let c: Compound =
        serde_cbor::value::from_value(value.clone()).map_err(|e| format!("decode from value: {e}"))?;
    let bytes = serde_cbor::to_vec(&c).map_err(|e| format!("encode: {e}"))?;
    let back: Compound = serde_cbor::from_slice(&bytes).map_err(|e| format!("decode: {e}"))?;

    if back != c {
        return Err(format!("decoded compound `{}` differs from encoded `{}`", back, c));
    }

    let parts_back = crate::obs::unit_parts(&back)?;
    let mut want: Vec<_> = parts.to_vec();
    want.sort();
    let mut got = parts_back;
    got.sort();

    if want != got {
        return Err(format!("structure changed: wrote {:?}, read {:?}", want, got));
    }

    let d1 = c.to_string();
    let d2 = back.to_string();

    if d1 != d2 {
        return Err(format!("display changed: `{d1}` vs `{d2}`"));
    }

    Ok(d1)
}

/// A compound built the way a caller of the library builds one - decoded, then changed through the public
/// `Compound::update` / `Compound::update_power` - must round trip like any other: bytes -> Compound equal to the one
/// written, and written again byte for byte the same. `muts`: (kind, key, power, prefix), kind 0 = update, 1 = update_power.
/// Returns how many entries with power 0 the written compound held.
pub fn compound_mutated_roundtrip(
    parts: &[(String, i64, i64)],
    muts: &[(u8, String, i64, i64)],
) -> Result<usize, String> {
    let value = compound_value(parts).ok_or("bad key")?;
    let mut c: Compound =
        serde_cbor::value::from_value(value).map_err(|e| format!("decode from value: {e}"))?;
    // The expected structure is tracked here, independently of the compound's own encoding.
    let mut model: BTreeMap<String, (i64, i64)> = parts.iter().map(|(k, p, x)| (k.clone(), (*p, *x))).collect();

    for (kind, key, power, prefix) in muts {
        let unit: anything::Unit = serde_cbor::value::from_value(key_to_cbor(key).ok_or("bad key")?)
            .map_err(|e| format!("decode unit {key}: {e}"))?;

        if *kind == 0 {
            // (what `update` accepts is its own business: the model follows its verdict)
            if c.update(unit, *power as i32, *prefix as i32).is_ok() {
                match model.get_mut(key) {
                    None => {
                        model.insert(key.clone(), (*power, *prefix));
                    }
                    Some(st) => {
                        st.0 += *power;
                        if st.0 == 0 {
                            model.remove(key);
                        }
                    }
                }
            }
        } else {
            c.update_power(unit, *power as i32);
            if let Some(st) = model.get_mut(key) {
                st.0 = *power;
            }
        }
    }

    let bytes = serde_cbor::to_vec(&c).map_err(|e| format!("encode: {e}"))?;
    let back: Compound = serde_cbor::from_slice(&bytes).map_err(|e| format!("decode after {} changes: {e}", muts.len()))?;

    if back != c {
        return Err(format!("decoded compound `{}` differs from encoded `{}`", back, c));
    }

    let again = serde_cbor::to_vec(&back).map_err(|e| format!("encode again: {e}"))?;

    if again != bytes {
        return Err("the decoded compound encodes to other bytes than it was decoded from".into());
    }

    // Generic view of the bytes (not through Compound): exactly the tracked entries.
    let generic: Cbor = serde_cbor::from_slice(&bytes).map_err(|e| format!("generic decode of the written bytes: {e}"))?;
    let zeros = model.values().filter(|st| st.0 == 0).count();
    // (a cancelled unit - power 0 - may or may not be written; every other entry must be there exactly)
    let mut got: Vec<_> = crate::obs::parts_of_generic(&generic)?.into_iter().filter(|p| p.1 != 0).collect();
    got.sort();
    let mut want: Vec<(String, i64, i64)> = model.iter().filter(|(_, st)| st.0 != 0).map(|(k, (p, x))| (k.clone(), *p, *x)).collect();
    want.sort();

    if got != want {
        return Err(format!("structure changed: built {:?}, the written bytes hold {:?}", want, got));
    }

    if c.to_string() != back.to_string() {
        return Err(format!("display changed: `{}` vs `{}`", c, back));
    }

    Ok(zeros)
}

/// Round trip a rational through CBOR and JSON.
pub fn rational_roundtrip(n: &BigInt, d: &BigInt) -> Result<(), String> {
    let r = Rational::new(n.clone(), d.clone());
    let bytes = serde_cbor::to_vec(&r).map_err(|e| format!("cbor encode: {e}"))?;
    let back: Rational = serde_cbor::from_slice(&bytes).map_err(|e| format!("cbor decode: {e}"))?;

    if back != r {
        return Err(format!(
            "cbor: wrote {}/{} read {}/{}",
            r.numer(),
            r.denom(),
            back.numer(),
            back.denom()
        ));
    }

    let text = serde_json::to_string(&r).map_err(|e| format!("json encode: {e}"))?;
    let back: Rational = serde_json::from_str(&text).map_err(|e| format!("json decode: {e}"))?;

    if back != r {
        return Err(format!(
            "json: wrote {}/{} read {}/{}",
            r.numer(),
            r.denom(),
            back.numer(),
            back.denom()
        ));
    }

    // The value must also be what was asked for (reduced).
    let e = num::BigRational::new(n.clone(), d.clone());
    if r.numer() != e.numer() || r.denom() != e.denom() {
        return Err("constructed rational differs from n/d".into());
    }

    Ok(())
}

/// Decode one shipped constant (generic CBOR map) as `anything::Constant`,
/// re-encode, decode again and compare field by field with the generic view.
pub fn constant_roundtrip(generic: &Cbor) -> Result<(), String> {
    let bytes = serde_cbor::to_vec(generic).map_err(|e| format!("encode generic: {e}"))?;
    let c: Constant = serde_cbor::from_slice(&bytes).map_err(|e| format!("decode: {e}"))?;
    let again = serde_cbor::to_vec(&c).map_err(|e| format!("re-encode: {e}"))?;
    let c2: Constant = serde_cbor::from_slice(&again).map_err(|e| format!("re-decode: {e}"))?;

    if c.source != c2.source
        || c.tokens != c2.tokens
        || c.description != c2.description
        || c.value != c2.value
        || c.unit != c2.unit
    {
        return Err("constant changed across a round trip".into());
    }

    // Field by field against the generic decode.
    let m = match generic {
        Cbor::Map(m) => m,
        _ => return Err("constant is not a map".into()),
    };
    let get = |k: &str| m.get(&Cbor::Text(k.into()));

    match get("description") {
        Some(Cbor::Text(t)) if **t == *c.description => {}
        other => return Err(format!("description mismatch: {:?}", other)),
    }

    match get("tokens") {
        Some(Cbor::Array(a)) => {
            let toks: Vec<String> = a
                .iter()
                .filter_map(|t| match t {
                    Cbor::Text(t) => Some(t.clone()),
                    _ => None,
                })
                .collect();
            if toks.len() != c.tokens.len()
                || toks.iter().zip(c.tokens.iter()).any(|(a, b)| **a != **b)
            {
                return Err("tokens mismatch".into());
            }
        }
        None if c.tokens.is_empty() => {}
        other => return Err(format!("tokens mismatch: {:?}", other)),
    }

    match (get("source"), c.source) {
        (Some(Cbor::Integer(i)), Some(s)) if *i == s as i128 => {}
        (None, None) | (Some(Cbor::Null), None) => {}
        (a, b) => return Err(format!("source mismatch: {:?} vs {:?}", a, b)),
    }

    // value / unit: compare the re-encoded generic value of each field.
    let again_generic: Cbor =
        serde_cbor::from_slice(&again).map_err(|e| format!("generic re-decode: {e}"))?;
    let m2 = match &again_generic {
        Cbor::Map(m) => m,
        _ => return Err("re-encoded constant is not a map".into()),
    };

    for k in ["value", "unit"] {
        let a = m.get(&Cbor::Text(k.into()));
        let b = m2.get(&Cbor::Text(k.into()));
        if a.is_none() || a != b {
            return Err(format!("field `{k}` changed: {:?} vs {:?}", a, b));
        }
    }

    Ok(())
}
