//! Independent view of an on-disk index directory (C15) and of the shipped
//! data files (C16/C17): nothing here goes through `anything::Db`.

use flate2::read::GzDecoder;
use serde_cbor::Value as Cbor;
use std::path::Path;
use tantivy::schema::{
    IndexRecordOption, Schema, TextFieldIndexing, TextOptions, Value, STORED,
};
use tantivy::tokenizer::{LowerCaser, NgramTokenizer, TextAnalyzer};
use tantivy::{Document, Index};

/// Decode every `*.bin.gz` under `dir` into generic CBOR.
pub fn load_assets(dir: &Path) -> Result<Vec<(String, Cbor)>, String> {
    let mut names: Vec<_> = std::fs::read_dir(dir)
        .map_err(|e| format!("{}: {e}", dir.display()))?
        .filter_map(|e| e.ok())
        .map(|e| e.path())
        .filter(|p| p.to_string_lossy().ends_with(".bin.gz"))
        .collect();
    names.sort();
    let mut out = Vec::new();

    for p in names {
        let bytes = std::fs::read(&p).map_err(|e| format!("{}: {e}", p.display()))?;
        let v: Cbor = serde_cbor::from_reader(GzDecoder::new(std::io::Cursor::new(bytes)))
            .map_err(|e| format!("{}: {e}", p.display()))?;
        out.push((
            p.file_name().unwrap().to_string_lossy().into_owned(),
            v,
        ));
    }

    Ok(out)
}

/// All constants (generic maps) of the shipped data, in file order.
pub fn shipped_constants(dir: &Path) -> Result<Vec<(String, Cbor)>, String> {
    let mut out = Vec::new();

    for (name, v) in load_assets(dir)? {
        if let Cbor::Map(m) = v {
            if let Some(Cbor::Array(cs)) = m.get(&Cbor::Text("constants".into())) {
                for c in cs {
                    out.push((name.clone(), c.clone()));
                }
            }
        }
    }

    Ok(out)
}

pub fn shipped_sources(dir: &Path) -> Result<Vec<Cbor>, String> {
    let mut out = Vec::new();

    for (_, v) in load_assets(dir)? {
        if let Cbor::Map(m) = v {
            if let Some(Cbor::Array(cs)) = m.get(&Cbor::Text("sources".into())) {
                out.extend(cs.iter().cloned());
            }
        }
    }

    Ok(out)
}

fn schema() -> Schema {
    let text_field_indexing = TextFieldIndexing::default()
        .set_tokenizer("ngram")
        .set_index_option(IndexRecordOption::WithFreqsAndPositions);
    let text_options = TextOptions::default()
        .set_indexing_options(text_field_indexing)
        .set_stored();
    let mut schema = Schema::builder();
    schema.add_bytes_field("data", STORED);
    schema.add_text_field("name", text_options);
    schema.build()
}

/// Read the stored payloads of every live document in an index directory.
/// `Err` means the directory cannot be opened as an index at all.
pub fn read_payloads(dir: &Path) -> Result<Vec<Vec<u8>>, String> {
    let index = Index::open_in_dir(dir).map_err(|e| format!("open: {e}"))?;
    let field = index
        .schema()
        .get_field("data")
        .ok_or_else(|| "no `data` field".to_string())?;
    let reader = index.reader().map_err(|e| format!("reader: {e}"))?;
    let searcher = reader.searcher();
    let mut out = Vec::new();

    for seg in searcher.segment_readers() {
        let store = seg.get_store_reader(1).map_err(|e| format!("store: {e}"))?;

        for doc in 0..seg.max_doc() {
            if seg.is_deleted(doc) {
                continue;
            }

            let d: Document = store.get(doc).map_err(|e| format!("doc {doc}: {e}"))?;

            if let Some(Value::Bytes(b)) = d.get_first(field) {
                out.push(b.clone());
            } else {
                out.push(Vec::new());
            }
        }
    }

    Ok(out)
}

/// Build a *foreign* index (same schema) in `dir` whose documents answer the
/// given phrases with poisoned payloads.
/// The layout another release might have used: same field names, but `name`
/// indexed as whole lower-cased words (tantivy's default tokenizer) without
/// positions instead of prefix n-grams.
fn schema_words() -> Schema {
    let text_field_indexing = TextFieldIndexing::default()
        .set_tokenizer("default")
        .set_index_option(IndexRecordOption::WithFreqs);
    let text_options = TextOptions::default()
        .set_indexing_options(text_field_indexing)
        .set_stored();
    let mut schema = Schema::builder();
    schema.add_bytes_field("data", STORED);
    schema.add_text_field("name", text_options);
    schema.build()
}

/// A layout with other field NAMES altogether (what a much older or newer release might have written).
fn schema_other_fields() -> Schema {
    let mut schema = Schema::builder();
    schema.add_bytes_field("payload", STORED);
    schema.add_text_field("title", tantivy::schema::TEXT | STORED);
    schema.build()
}

pub fn build_foreign_fields(dir: &Path, docs: &[(Vec<String>, Vec<u8>)]) -> Result<(), String> {
    if dir.is_dir() {
        std::fs::remove_dir_all(dir).map_err(|e| e.to_string())?;
    }
    std::fs::create_dir_all(dir).map_err(|e| e.to_string())?;
    let index = Index::create_in_dir(dir, schema_other_fields()).map_err(|e| format!("create: {e}"))?;
    let s = index.schema();
    let payload = s.get_field("payload").unwrap();
    let title = s.get_field("title").unwrap();
    let mut writer = index
        .writer_with_num_threads(1, 50_000_000)
        .map_err(|e| format!("writer: {e}"))?;

    for (tokens, bytes) in docs {
        let mut doc = Document::default();
        doc.add_bytes(payload, bytes.clone());
        doc.add_text(title, tokens.join(" "));
        writer.add_document(doc).map_err(|e| e.to_string())?;
    }

    writer.commit().map_err(|e| format!("commit: {e}"))?;
    writer
        .wait_merging_threads()
        .map_err(|e| format!("merge: {e}"))?;
    Ok(())
}

pub fn build_foreign(dir: &Path, docs: &[(Vec<String>, Vec<u8>)], words_layout: bool) -> Result<(), String> {
    if dir.is_dir() {
        std::fs::remove_dir_all(dir).map_err(|e| e.to_string())?;
    }
    std::fs::create_dir_all(dir).map_err(|e| e.to_string())?;
    let schema = if words_layout { schema_words() } else { schema() };
    let index = Index::create_in_dir(dir, schema).map_err(|e| format!("create: {e}"))?;
    let tokenizer = TextAnalyzer::from(NgramTokenizer::new(1, 7, true)).filter(LowerCaser);
    index.tokenizers().register("ngram", tokenizer);
    let s = index.schema();
    let data = s.get_field("data").unwrap();
    let name = s.get_field("name").unwrap();
    let mut writer = index
        .writer_with_num_threads(1, 50_000_000)
        .map_err(|e| format!("writer: {e}"))?;

    for (tokens, payload) in docs {
        let mut doc = Document::default();
        doc.add_bytes(data, payload.clone());
        for t in tokens {
            doc.add_text(name, t);
        }
        writer.add_document(doc).map_err(|e| e.to_string())?;
    }

    writer.commit().map_err(|e| format!("commit: {e}"))?;
    writer
        .wait_merging_threads()
        .map_err(|e| format!("merge: {e}"))?;
    Ok(())
}
