//! C12 in-process monitor: lexing and parsing are lossless over the input.
//!
//! For one input `s` the monitor runs the real `Lexer` and the real
//! `Parser::parse_root` and checks, independently of either:
//!
//! * the lexer stops within `len(s)` tokens, every token is non-empty, the
//!   running sum of lengths only hits `char` boundaries and ends at `len(s)`;
//! * parsing returns a tree; a depth-first walk yields leaves whose
//!   `(kind, len)` sequence equals the lexer's token sequence and whose spans
//!   tile `[0, len(s))` exactly once, in order;
//! * every inner node's span is exactly the hull of its (contiguous) children.

use anything::syntax::lexer::Lexer;
use anything::syntax::parser::{Parser, Syntax};
use std::collections::HashSet;
use std::hash::{Hash, Hasher};

#[derive(Default, Debug, Clone)]
pub struct Stats {
    pub tokens: usize,
    pub leaves: usize,
    pub inner: usize,
    pub empty_nodes: usize,
    pub max_depth: usize,
    pub shape_hash: u64,
    pub kinds_hash: u64,
}

fn kind_id(k: Syntax) -> u32 {
    // `Syntax` is a field-less enum: its Debug text identifies it; hash that.
    let mut h = std::collections::hash_map::DefaultHasher::new();
    format!("{:?}", k).hash(&mut h);
    h.finish() as u32
}

fn as_len<T: TryInto<usize>>(x: T) -> usize {
    x.try_into().ok().unwrap_or(usize::MAX)
}

pub fn lex(s: &str) -> Result<Vec<(Syntax, usize)>, String> {
    let mut out = Vec::new();
    let mut pos = 0usize;
    let bound = s.len() + 1;

    for t in Lexer::new(s) {
        if out.len() >= bound {
            return Err(format!(
                "lexer did not stop within {} tokens (input is {} bytes)",
                bound,
                s.len()
            ));
        }

        // (whatever integer type the token length has: the harness must keep compiling when it is narrowed)
        let tlen = as_len(t.len);

        if tlen == 0 {
            return Err(format!("empty token {:?} at byte {}", t.kind, pos));
        }

        pos = match pos.checked_add(tlen) {
            Some(p) => p,
            None => return Err("token length overflow".into()),
        };

        if pos > s.len() {
            return Err(format!(
                "token {:?} ends at byte {} beyond the input ({} bytes)",
                t.kind,
                pos,
                s.len()
            ));
        }

        if !s.is_char_boundary(pos) {
            return Err(format!(
                "token {:?} ends at byte {} inside a character",
                t.kind, pos
            ));
        }

        out.push((t.kind, tlen));
    }

    if pos != s.len() {
        return Err(format!(
            "tokens cover {} of {} bytes (lexer stopped early)",
            pos,
            s.len()
        ));
    }

    Ok(out)
}

pub fn check(s: &str) -> Result<Stats, String> {
    let tokens = lex(s)?;

    let tree = match Parser::new(s).parse_root() {
        Ok(tree) => tree,
        Err(e) => return Err(format!("parse_root failed: {e}")),
    };

    let mut stats = Stats {
        tokens: tokens.len(),
        ..Stats::default()
    };

    let mut leaves: Vec<(Syntax, usize, usize)> = Vec::new();
    let mut shape = std::collections::hash_map::DefaultHasher::new();
    let mut walk = tree.walk().with_depths();

    // Depth-first walk; check hull property at every inner node.
    while let Some((depth, node)) = walk.next() {
        stats.max_depth = stats.max_depth.max(depth);
        (depth as u32, kind_id(*node.value())).hash(&mut shape);
        let span = node.span();
        let (start, end) = (span.start as usize, span.end as usize);

        if start > end || end > s.len() {
            return Err(format!(
                "node {:?} has span {}..{} outside the input ({} bytes)",
                node.value(),
                start,
                end,
                s.len()
            ));
        }

        if node.has_children() {
            stats.inner += 1;
            let mut at = start;
            let mut n = 0usize;

            for child in node.children() {
                let cs = child.span();

                if cs.start as usize != at {
                    return Err(format!(
                        "child {:?} of {:?} starts at {} but the previous sibling (or the parent) ends/starts at {}",
                        child.value(),
                        node.value(),
                        cs.start,
                        at
                    ));
                }

                at = cs.end as usize;
                n += 1;
            }

            if at != end || n == 0 {
                return Err(format!(
                    "node {:?} spans {}..{} but its children end at {}",
                    node.value(),
                    start,
                    end,
                    at
                ));
            }
        } else if start == end {
            stats.empty_nodes += 1;
        } else {
            leaves.push((*node.value(), start, end));
        }
    }

    stats.leaves = leaves.len();
    stats.shape_hash = shape.finish();

    // Leaves tile the input in order and equal the token sequence.
    let mut at = 0usize;

    for (i, (kind, start, end)) in leaves.iter().enumerate() {
        if *start != at {
            return Err(format!(
                "leaf #{} {:?} starts at {} but the previous leaf ended at {} (bytes lost or duplicated)",
                i, kind, start, at
            ));
        }

        at = *end;

        match tokens.get(i) {
            Some((tk, tl)) if tk == kind && *tl == end - start => {}
            Some((tk, tl)) => {
                return Err(format!(
                    "leaf #{} is {:?}/{} but token #{} is {:?}/{}",
                    i,
                    kind,
                    end - start,
                    i,
                    tk,
                    tl
                ));
            }
            None => {
                return Err(format!(
                    "leaf #{} {:?} has no corresponding token (lexer produced {})",
                    i,
                    kind,
                    tokens.len()
                ));
            }
        }
    }

    if at != s.len() {
        return Err(format!(
            "leaves cover {} of {} bytes",
            at,
            s.len()
        ));
    }

    if leaves.len() != tokens.len() {
        return Err(format!(
            "{} leaves but {} tokens",
            leaves.len(),
            tokens.len()
        ));
    }

    // Top-level children tile the input as well.
    let mut at = 0usize;

    for child in tree.children() {
        let cs = child.span();

        if cs.start as usize != at {
            return Err(format!(
                "root child {:?} starts at {} but previous ended at {}",
                child.value(),
                cs.start,
                at
            ));
        }

        at = cs.end as usize;
    }

    if at != s.len() {
        return Err(format!("root children cover {} of {} bytes", at, s.len()));
    }

    let mut kh = std::collections::hash_map::DefaultHasher::new();

    for (k, _) in &tokens {
        kind_id(*k).hash(&mut kh);
    }

    stats.kinds_hash = kh.finish();
    Ok(stats)
}

/// Result of a sweep.
#[derive(Default, Debug)]
pub struct Sweep {
    pub strings: u64,
    pub interleaved: u64,
    pub prev: String,
    pub pumped: u64,
    pub tokens: u64,
    pub inner_nodes: u64,
    pub max_depth: usize,
    pub distinct_token_kind_sequences: usize,
    pub distinct_tree_shapes: usize,
    pub violations: Vec<(String, String)>,
    pub violation_count: u64,
    pub panics: u64,
}

/// Calls of the library's *other* parsing entry points on the same thread, right before the next input is
/// checked: whatever a parser keeps between two uses (a thread-local buffer, a cache) must not leak into the
/// next parse. The string is the previous input, every kind of prefix and tail included.
/// Does the text contain an exponent field (`e` / `E`, optional sign) of more than four digits? The number reader would then set out
/// to compute 10^(that many) by repeated multiplication: `1e999999999` keeps one thread busy for hours (thorough run, seed 7). That
/// is a cost of this monitor's interleaving, not a property of lexing and parsing, so such texts skip the number reader.
fn has_huge_exponent(s: &str) -> bool {
    let b = s.as_bytes();
    let mut i = 0;
    while i < b.len() {
        if b[i] == b'e' || b[i] == b'E' {
            let mut k = i + 1;
            if k < b.len() && (b[k] == b'+' || b[k] == b'-') {
                k += 1;
            }
            let d0 = k;
            while k < b.len() && b[k].is_ascii_digit() {
                k += 1;
            }
            if k - d0 > 4 {
                return true;
            }
        }
        i += 1;
    }
    false
}

fn interleave(prev: &str, out: &mut Sweep) {
    out.interleaved += 1;
    let number_too = !has_huge_exponent(prev);
    let _ = std::panic::catch_unwind(|| {
        let _ = prev.parse::<anything::Compound>();
        if number_too {
            let _ = prev.parse::<anything::Rational>();
        }
    });
    if out.interleaved % 3 == 0 {
        let _ = std::panic::catch_unwind(|| {
            let _ = Parser::new(prev).parse_unit();
        });
    }
}

fn run_one(s: &str, kinds: &mut HashSet<u64>, shapes: &mut HashSet<u64>, out: &mut Sweep) {
    out.strings += 1;
    // every fourth input is preceded by unit / number parses of the input before it
    if out.strings % 4 == 0 {
        let prev = std::mem::take(&mut out.prev);
        interleave(&prev, out);
        out.prev = prev;
    }
    out.prev.clear();
    out.prev.push_str(s);
    let r = std::panic::catch_unwind(|| check(s));

    match r {
        Ok(Ok(stats)) => {
            out.tokens += stats.tokens as u64;
            out.inner_nodes += stats.inner as u64;
            out.max_depth = out.max_depth.max(stats.max_depth);
            kinds.insert(stats.kinds_hash);
            shapes.insert(stats.shape_hash);
        }
        Ok(Err(e)) => {
            out.violation_count += 1;
            if out.violations.len() < 20 {
                out.violations.push((s.to_owned(), e));
            }
        }
        Err(p) => {
            out.violation_count += 1;
            out.panics += 1;
            let msg = crate::panic_message(&p);
            if out.violations.len() < 20 {
                out.violations.push((s.to_owned(), format!("panic: {msg}")));
            }
        }
    }
}

/// All strings of exactly `len` symbols over `alphabet`, split over `threads`.
pub fn sweep_exhaustive(alphabet: &[String], len: usize, threads: usize) -> Sweep {
    let a = alphabet.len() as u64;
    let total = a.pow(len as u32);
    let threads = threads.max(1);
    let mut handles = Vec::new();

    for t in 0..threads {
        let alphabet = alphabet.to_vec();
        handles.push(std::thread::spawn(move || {
            let mut out = Sweep::default();
            let mut kinds = HashSet::new();
            let mut shapes = HashSet::new();
            let lo = total * t as u64 / threads as u64;
            let hi = total * (t as u64 + 1) / threads as u64;
            let mut s = String::new();

            for idx in lo..hi {
                s.clear();
                let mut x = idx;

                for _ in 0..len {
                    s.push_str(&alphabet[(x % a) as usize]);
                    x /= a;
                }

                run_one(&s, &mut kinds, &mut shapes, &mut out);
            }

            (out, kinds, shapes)
        }));
    }

    merge(handles)
}

fn merge(
    handles: Vec<std::thread::JoinHandle<(Sweep, HashSet<u64>, HashSet<u64>)>>,
) -> Sweep {
    let mut all = Sweep::default();
    let mut kinds = HashSet::new();
    let mut shapes = HashSet::new();

    for h in handles {
        if let Ok((o, k, s)) = h.join() {
            all.strings += o.strings;
            all.pumped += o.pumped;
            all.interleaved += o.interleaved;
            all.tokens += o.tokens;
            all.inner_nodes += o.inner_nodes;
            all.max_depth = all.max_depth.max(o.max_depth);
            all.violation_count += o.violation_count;
            all.panics += o.panics;
            for v in o.violations {
                if all.violations.len() < 20 {
                    all.violations.push(v);
                }
            }
            kinds.extend(k);
            shapes.extend(s);
        } else {
            all.violation_count += 1;
            all.violations
                .push((String::new(), "sweep thread died".into()));
        }
    }

    all.distinct_token_kind_sequences = kinds.len();
    all.distinct_tree_shapes = shapes.len();
    all
}

/// Multi-character building blocks for pumped strings (besides the alphabet).
const PUMP_WORDS: &[&str] = &[
    "round(", "floor(", "x(", "f(*)", "1.5", "2e3", " to ", "km", "m/s", "^2", "^-1", "°C", "{a b}", "-1", ", ", ") ", " (", "1 +",
    "* 2", "**", "( ", " )", "1 ", " m",
];

/// `count` random strings of `min..=max` symbols over `alphabet`.
pub fn sweep_random(
    alphabet: &[String],
    min: usize,
    max: usize,
    count: u64,
    seed: u64,
    threads: usize,
) -> Sweep {
    let threads = threads.max(1);
    let mut handles = Vec::new();

    for t in 0..threads {
        let alphabet = alphabet.to_vec();
        let n = count / threads as u64 + u64::from((t as u64) < count % threads as u64);
        handles.push(std::thread::spawn(move || {
            let mut rng = crate::Rng::new(seed.wrapping_mul(1000).wrapping_add(t as u64));
            let mut out = Sweep::default();
            let mut kinds = HashSet::new();
            let mut shapes = HashSet::new();
            let mut s = String::new();

            for _ in 0..n {
                s.clear();
                let len = rng.range(min as i64, max as i64) as usize;

                // Pumped strings: prefix + pattern^k + middle + closing^k + suffix. Counters,
                // depth limits and leaks in the parser only show after many repetitions of
                // one short pattern (65 nested calls, 300 parentheses), which uniformly
                // random strings never contain.
                if rng.chance(300) {
                    let pick = |rng: &mut crate::Rng, s: &mut String| {
                        let total = alphabet.len() + PUMP_WORDS.len();
                        let i = rng.below(total as u64) as usize;
                        if i < alphabet.len() {
                            s.push_str(&alphabet[i]);
                        } else {
                            s.push_str(PUMP_WORDS[i - alphabet.len()]);
                        }
                    };
                    let mut pattern = String::new();
                    for _ in 0..rng.range(1, 5) {
                        pick(&mut rng, &mut pattern);
                    }
                    let mut closing = String::new();
                    if rng.chance(500) {
                        for _ in 0..rng.range(1, 3) {
                            pick(&mut rng, &mut closing);
                        }
                    }
                    let unit = pattern.chars().count() + closing.chars().count();
                    let k = rng.range(1, (len.max(unit) / unit.max(1)).max(1) as i64) as usize;
                    for _ in 0..rng.below(4) {
                        pick(&mut rng, &mut s);
                    }
                    for _ in 0..k {
                        s.push_str(&pattern);
                    }
                    for _ in 0..rng.below(3) {
                        pick(&mut rng, &mut s);
                    }
                    for _ in 0..k {
                        s.push_str(&closing);
                    }
                    for _ in 0..rng.below(4) {
                        pick(&mut rng, &mut s);
                    }
                    out.pumped += 1;
                    run_one(&s, &mut kinds, &mut shapes, &mut out);
                    continue;
                }
                // Sometimes restrict to a small sub-alphabet to get deep
                // structure (nesting, number continuation) instead of noise.
                let sub = if rng.chance(500) {
                    let k = rng.range(2, 8) as usize;
                    let mut v = Vec::new();
                    for _ in 0..k {
                        v.push(rng.below(alphabet.len() as u64) as usize);
                    }
                    Some(v)
                } else {
                    None
                };

                for _ in 0..len {
                    let i = match &sub {
                        Some(v) => v[rng.below(v.len() as u64) as usize],
                        None => rng.below(alphabet.len() as u64) as usize,
                    };
                    s.push_str(&alphabet[i]);
                }

                run_one(&s, &mut kinds, &mut shapes, &mut out);
            }

            (out, kinds, shapes)
        }));
    }

    merge(handles)
}
