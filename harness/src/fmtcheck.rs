//! C08 in-process monitor: printed decimals are faithful.
//!
//! For value `x = n/d`, spec `(limit, exponent_limit)` and printed text `T`:
//! `T` must parse as `-? digits ('.' digits)? '…'? ('e' -? digits)?`; with `v`
//! the decimal value of `T` (mark ignored) and `u` one unit in its last printed
//! digit: `|v| <= |x| < |v| + u`; sign correct; mark present iff `|x| != |v|`.

use anything::rational::DisplaySpec;
use anything::Rational;
use num::{BigInt, BigRational, Signed, Zero};

#[derive(Debug, Clone, Copy, PartialEq, Eq, Hash, PartialOrd, Ord)]
pub enum Path {
    /// No exponent, integer part non-zero or value integral.
    Whole,
    /// No exponent, `0.000ddd`.
    LeadingZero,
    /// Positive exponent.
    BigExp,
    /// Negative exponent.
    SmallExp,
}

pub struct Parsed {
    pub neg: bool,
    pub digits: String,
    pub frac_len: usize,
    pub mark: bool,
    pub exp: i64,
    pub path: Path,
}

pub fn parse_text(t: &str) -> Result<Parsed, String> {
    let mut it = t.chars().peekable();
    let mut neg = false;

    if it.peek() == Some(&'-') {
        neg = true;
        it.next();
    }

    let mut int = String::new();
    while let Some(c) = it.peek().copied() {
        if c.is_ascii_digit() {
            int.push(c);
            it.next();
        } else {
            break;
        }
    }

    if int.is_empty() {
        return Err("no integer digits".into());
    }

    let mut frac = String::new();
    if it.peek() == Some(&'.') {
        it.next();
        while let Some(c) = it.peek().copied() {
            if c.is_ascii_digit() {
                frac.push(c);
                it.next();
            } else {
                break;
            }
        }
        if frac.is_empty() {
            return Err("point without fraction digits".into());
        }
    }

    let mut mark = false;
    if it.peek() == Some(&'…') {
        mark = true;
        it.next();
    }

    let mut exp = 0i64;
    let mut has_exp = false;
    if it.peek() == Some(&'e') {
        it.next();
        has_exp = true;
        let mut eneg = false;
        if it.peek() == Some(&'-') {
            eneg = true;
            it.next();
        }
        let mut e = String::new();
        while let Some(c) = it.peek().copied() {
            if c.is_ascii_digit() {
                e.push(c);
                it.next();
            } else {
                break;
            }
        }
        if e.is_empty() {
            return Err("exponent without digits".into());
        }
        exp = e.parse::<i64>().map_err(|e| e.to_string())?;
        if eneg {
            exp = -exp;
        }
    }

    if let Some(c) = it.next() {
        return Err(format!("unexpected character {:?}", c));
    }

    let path = if has_exp {
        if exp >= 0 {
            Path::BigExp
        } else {
            Path::SmallExp
        }
    } else if int.chars().all(|c| c == '0') && !frac.is_empty() {
        Path::LeadingZero
    } else {
        Path::Whole
    };

    let frac_len = frac.len();
    let mut digits = int;
    digits.push_str(&frac);

    Ok(Parsed {
        neg,
        digits,
        frac_len,
        mark,
        exp,
        path,
    })
}

fn pow10(n: usize) -> BigInt {
    num::pow(BigInt::from(10u32), n)
}

/// Judge one printed text. `Ok(path)` if faithful.
pub fn judge_text(n: &BigInt, d: &BigInt, text: &str) -> Result<(Path, bool), String> {
    let x = BigRational::new(n.clone(), d.clone());
    let p = parse_text(text).map_err(|e| format!("malformed text: {e}"))?;
    let m: BigInt = p.digits.parse().map_err(|_| "bad digits".to_string())?;
    let shift = p.exp - p.frac_len as i64;

    let (v, u) = if shift >= 0 {
        let s = pow10(shift as usize);
        (
            BigRational::from_integer(m * &s),
            BigRational::from_integer(s),
        )
    } else {
        let s = pow10((-shift) as usize);
        (
            BigRational::new(m, s.clone()),
            BigRational::new(BigInt::from(1u32), s),
        )
    };

    let ax = x.abs();

    if p.neg != x.is_negative() {
        return Err(format!(
            "sign: text is {} but the value is {}",
            if p.neg { "negative" } else { "non-negative" },
            if x.is_negative() { "negative" } else { "non-negative" }
        ));
    }

    if v > ax {
        return Err(format!("printed magnitude {} exceeds the value", v));
    }

    if ax >= &v + &u {
        return Err(format!(
            "printed magnitude {} is more than one unit in the last place ({}) below the value",
            v, u
        ));
    }

    let cut = ax != v;

    if cut != p.mark {
        return Err(if cut {
            "non-zero digits were cut off but no continuation mark is shown".to_string()
        } else {
            "continuation mark shown although the text is exact".to_string()
        });
    }

    let _ = Zero::is_zero(&v);
    Ok((p.path, cut))
}

pub fn render(n: &BigInt, d: &BigInt, limit: usize, exponent_limit: usize) -> String {
    let r = Rational::new(n.clone(), d.clone());
    let mut spec = DisplaySpec::default();
    spec.limit = limit;
    spec.exponent_limit = exponent_limit;
    spec.show_continuation = true;
    r.display(&spec).to_string()
}

#[derive(Default, Debug)]
pub struct Sweep {
    pub pairs: u64,
    pub cut: u64,
    pub by_path: [u64; 4],
    pub cut_by_path: [u64; 4],
    pub violation_count: u64,
    pub panics: u64,
    pub violations: Vec<(String, String, usize, usize, String, String)>,
    pub sample: Vec<(String, String, usize, usize, String)>,
}

impl Sweep {
    pub fn merge(&mut self, o: Sweep) {
        self.pairs += o.pairs;
        self.cut += o.cut;
        for i in 0..4 {
            self.by_path[i] += o.by_path[i];
            self.cut_by_path[i] += o.cut_by_path[i];
        }
        self.violation_count += o.violation_count;
        self.panics += o.panics;
        for v in o.violations {
            if self.violations.len() < 30 {
                self.violations.push(v);
            }
        }
        self.sample.extend(o.sample);
    }
}

pub fn judge_one(
    n: &BigInt,
    d: &BigInt,
    limit: usize,
    exponent_limit: usize,
    sample: bool,
    out: &mut Sweep,
) {
    out.pairs += 1;
    let text = match std::panic::catch_unwind(|| render(n, d, limit, exponent_limit)) {
        Ok(t) => t,
        Err(p) => {
            out.violation_count += 1;
            out.panics += 1;
            if out.violations.len() < 30 {
                out.violations.push((
                    n.to_string(),
                    d.to_string(),
                    limit,
                    exponent_limit,
                    String::new(),
                    format!("panic: {}", crate::panic_message(&p)),
                ));
            }
            return;
        }
    };

    match judge_text(n, d, &text) {
        Ok((path, cut)) => {
            out.by_path[path as usize] += 1;
            if cut {
                out.cut += 1;
                out.cut_by_path[path as usize] += 1;
            }
        }
        Err(e) => {
            out.violation_count += 1;
            if out.violations.len() < 30 {
                out.violations.push((
                    n.to_string(),
                    d.to_string(),
                    limit,
                    exponent_limit,
                    text.clone(),
                    e,
                ));
            }
        }
    }

    if sample {
        out.sample
            .push((n.to_string(), d.to_string(), limit, exponent_limit, text));
    }
}

/// Grid `n in [-nmax, nmax]`, `d in [1, dmax]` crossed with `limits` and
/// `thresholds`; `stride`/`offset` subsample the (n, d) pairs deterministically.
#[allow(clippy::too_many_arguments)]
pub fn sweep_grid(
    nmax: i64,
    dmax: i64,
    limits: &[usize],
    thresholds: &[usize],
    stride: u64,
    offset: u64,
    sample_every: u64,
    threads: usize,
) -> Sweep {
    let threads = threads.max(1);
    let mut handles = Vec::new();

    for t in 0..threads {
        let limits = limits.to_vec();
        let thresholds = thresholds.to_vec();
        handles.push(std::thread::spawn(move || {
            let mut out = Sweep::default();
            let mut k = 0u64;
            let mut idx = 0u64;

            for n in -nmax..=nmax {
                for d in 1..=dmax {
                    idx += 1;
                    if (idx + offset) % stride != 0 {
                        continue;
                    }
                    if idx % threads as u64 != t as u64 {
                        continue;
                    }
                    let (bn, bd) = (BigInt::from(n), BigInt::from(d));
                    for &l in &limits {
                        for &e in &thresholds {
                            k += 1;
                            judge_one(&bn, &bd, l, e, k % sample_every == 0, &mut out);
                        }
                    }
                }
            }

            out
        }));
    }

    let mut all = Sweep::default();
    for h in handles {
        match h.join() {
            Ok(o) => all.merge(o),
            Err(_) => {
                all.violation_count += 1;
            }
        }
    }
    all
}
