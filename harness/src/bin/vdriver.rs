//! vdriver: JSON-lines adapter between the Python monitors and the real API.
//! One request per line on stdin, one reply per line on stdout. It reports
//! observations only (and the counters of the in-process monitors); it never
//! decides a verdict for a Python-side oracle.

use anything::{Compound, Db, Rational};
use codespan_reporting::diagnostic::{Diagnostic, Label};
use codespan_reporting::files::SimpleFiles;
use codespan_reporting::term;
use codespan_reporting::term::termcolor::Buffer;
use serde_json::{json, Value};
use std::io::{BufRead, Write};
use std::panic::{catch_unwind, AssertUnwindSafe};
use vharness::obs::{display12, rational_json, unit_json};
use vharness::{fmtcheck, idx, literal, lossless, serdert};

struct State {
    db: Option<Db>,
}

fn need_db(st: &mut State) -> Result<&Db, String> {
    if st.db.is_none() {
        st.db = Some(Db::in_memory().map_err(|e| format!("Db::in_memory: {e:#}"))?);
    }
    Ok(st.db.as_ref().unwrap())
}

fn numeric_json(n: &anything::Numeric, full: bool) -> Value {
    let mut v = json!({
        "v": rational_json(&n.value),
        "u": unit_json(&n.unit),
    });

    if full {
        let shown = catch_unwind(AssertUnwindSafe(|| {
            (
                n.unit.display(false).to_string(),
                n.unit.display(true).to_string(),
                display12(&n.value),
                n.unit.has_numerator(),
            )
        }));

        match shown {
            Ok((d, dp, v12, hn)) => {
                // The displayed unit read back by the tool's own unit parser (superscripts and the product dot translated to the
                // input syntax): whatever the display format is, it has to denote the unit that was computed. Null = not readable.
                let mut ascii = String::new();
                let mut in_sup = false;
                for c in d.chars() {
                    let m = match c {
                        '⁰' => Some('0'), '¹' => Some('1'), '²' => Some('2'), '³' => Some('3'), '⁴' => Some('4'),
                        '⁵' => Some('5'), '⁶' => Some('6'), '⁷' => Some('7'), '⁸' => Some('8'), '⁹' => Some('9'), '⁻' => Some('-'),
                        _ => None,
                    };
                    match m {
                        Some(x) => {
                            if !in_sup {
                                ascii.push('^');
                                in_sup = true;
                            }
                            ascii.push(x);
                        }
                        None => {
                            in_sup = false;
                            ascii.push(if c == '⋅' { '*' } else { c });
                        }
                    }
                }
                let text = if ascii.starts_with('/') { format!("1{ascii}") } else { ascii.clone() };
                v["disp_reparsed"] = match catch_unwind(|| text.parse::<Compound>()) {
                    Ok(Ok(c)) if !text.is_empty() => unit_json(&c),
                    _ => Value::Null,
                };
                v["disp"] = json!(d);
                v["disp_pl"] = json!(dp);
                v["v12"] = json!(v12);
                v["has_num"] = json!(hn);
            }
            Err(p) => {
                v["display_panic"] = json!(vharness::panic_message(&p));
            }
        }
    }

    v
}

fn render_diag(source: &str, e: &anything::Error) -> Result<String, String> {
    let r = catch_unwind(AssertUnwindSafe(|| {
        let mut files = SimpleFiles::new();
        let id = files.add("<in>", source.to_owned());
        let labels = vec![Label::primary(id, e.range()).with_message(e.to_string())];
        let diagnostic = Diagnostic::error()
            .with_message(e.to_string())
            .with_labels(labels);
        let mut buf = Buffer::no_color();
        let config = term::Config::default();
        term::emit(&mut buf, &config, &files, &diagnostic).map_err(|e| e.to_string())?;
        Ok::<_, String>(String::from_utf8_lossy(buf.as_slice()).into_owned())
    }));

    match r {
        Ok(r) => r,
        Err(p) => Err(format!("panic: {}", vharness::panic_message(&p))),
    }
}

fn take_events() -> Value {
    let evs = anything::verif::take_events();
    Value::Array(
        evs.into_iter()
            .map(|e| match e {
                anything::verif::Event::Lookup { phrase, hit } => json!({"phrase": phrase, "hit": hit}),
            })
            .collect(),
    )
}

fn op_query(st: &mut State, req: &Value) -> Value {
    let q = req["q"].as_str().unwrap_or("").to_owned();
    let describe = req["describe"].as_bool().unwrap_or(false);
    let full = req["full"].as_bool().unwrap_or(false);
    let render = req["render"].as_bool().unwrap_or(false);

    let db = match need_db(st) {
        Ok(db) => db,
        Err(e) => return json!({"harness_error": e}),
    };

    let _ = anything::verif::take_events();
    let started = std::time::Instant::now();

    let r = catch_unwind(AssertUnwindSafe(|| {
        let parsed = match anything::parse(&q) {
            Ok(p) => p,
            Err(e) => return json!({"parse_err": format!("{e:#}")}),
        };

        let options = anything::Options::default();
        let options = if describe { options.describe() } else { options };
        let mut descriptions = Vec::new();
        let mut items = Vec::new();

        for item in anything::query(&parsed, db, options, &mut descriptions) {
            match item {
                Ok(n) => items.push(json!({"ok": numeric_json(&n, full)})),
                Err(e) => {
                    let range = e.range();
                    let mut ev = json!({
                        "msg": e.to_string(),
                        "start": range.start,
                        "end": range.end,
                        "start_boundary": q.is_char_boundary(range.start.min(q.len())) && range.start <= q.len(),
                        "end_boundary": q.is_char_boundary(range.end.min(q.len())) && range.end <= q.len(),
                    });

                    if render {
                        // Only render spans the renderer can take at all; the
                        // monitor judges the range separately.
                        match render_diag(&q, &e) {
                            Ok(text) => ev["rendered"] = json!(text),
                            Err(err) => ev["render_error"] = json!(err),
                        }
                    }

                    items.push(json!({"err": ev}));
                }
            }
        }

        let descs: Vec<Value> = descriptions
            .iter()
            .map(|d| match d {
                anything::Description::Constant(phrase, c) => json!({
                    "phrase": &**phrase,
                    "description": &*c.description,
                    "tokens": c.tokens.iter().map(|t| t.to_string()).collect::<Vec<_>>(),
                    "v": rational_json(&c.value),
                    "u": unit_json(&c.unit),
                    "source": c.source,
                    "source_resolves": c.source.map(|id| db.get_source(id).is_some()),
                }),
            })
            .collect();

        json!({"items": items, "descs": descs})
    }));

    let mut out = match r {
        Ok(v) => v,
        Err(p) => json!({"panic": vharness::panic_message(&p), "panic_loc": vharness::last_panic_location()}),
    };

    out["events"] = take_events();
    out["us"] = json!(started.elapsed().as_micros() as u64);
    out
}

/// Several queries whose result iterators are alive at the same time on this thread and are stepped in turn: query k+1 is created
/// after query k has yielded its first result. Each query must yield what it yields on its own (C18; seed C10-i: per-thread state
/// that a new query resets under the feet of one that is still running).
fn op_interleave(st: &mut State, req: &Value) -> Value {
    let qs = strs(&req["qs"]);
    let db = match need_db(st) {
        Ok(db) => db,
        Err(e) => return json!({"harness_error": e}),
    };
    let r = catch_unwind(AssertUnwindSafe(|| {
        let parsed: Vec<_> = qs.iter().map(|q| anything::parse(q)).collect();
        if parsed.iter().any(|p| p.is_err()) {
            return json!({"parse_err": true});
        }
        let parsed: Vec<_> = parsed.into_iter().map(|p| p.unwrap()).collect();
        let mut descs: Vec<Vec<anything::Description>> = qs.iter().map(|_| Vec::new()).collect();
        let mut out: Vec<Vec<Value>> = qs.iter().map(|_| Vec::new()).collect();
        let mut iters = Vec::new();
        let mut done = vec![false; qs.len()];
        let mut dit = descs.iter_mut();
        let mut next_to_create = 0usize;
        let mut rounds = 0usize;
        loop {
            if next_to_create < qs.len() {
                let dslot = dit.next().unwrap();
                iters.push(anything::query(&parsed[next_to_create], db, anything::Options::default(), dslot));
                next_to_create += 1;
            }
            let mut progressed = false;
            // (the round in which a query was created steps the newest one first, the following rounds the oldest first: both orders
            // of "the other query ran in between" occur)
            let created_now = next_to_create <= qs.len() && iters.len() == next_to_create && rounds < qs.len();
            rounds += 1;
            let mut order: Vec<usize> = (0..iters.len()).collect();
            if created_now {
                order.reverse();
            }
            for i in order {
                let it = &mut iters[i];
                if done[i] {
                    continue;
                }
                match it.next() {
                    Some(Ok(n)) => {
                        out[i].push(json!({"ok": numeric_json(&n, false)}));
                        progressed = true;
                    }
                    Some(Err(e)) => {
                        out[i].push(json!({"err": {"msg": e.to_string()}}));
                        progressed = true;
                    }
                    None => done[i] = true,
                }
            }
            if !progressed && next_to_create >= qs.len() {
                break;
            }
        }
        json!({"results": out})
    }));
    match r {
        Ok(v) => v,
        Err(p) => json!({"panic": vharness::panic_message(&p), "panic_loc": vharness::last_panic_location()}),
    }
}

fn op_rational(req: &Value) -> Value {
    let s = req["s"].as_str().unwrap_or("");
    match catch_unwind(|| s.parse::<Rational>()) {
        Ok(Ok(r)) => json!({"ok": rational_json(&r)}),
        Ok(Err(e)) => json!({"err": e.to_string()}),
        Err(p) => json!({"panic": vharness::panic_message(&p)}),
    }
}

fn op_display(req: &Value) -> Value {
    let n = vharness::obs::parse_bigint(req["n"].as_str().unwrap_or("0"));
    let d = vharness::obs::parse_bigint(req["d"].as_str().unwrap_or("1"));
    let (n, d) = match (n, d) {
        (Some(n), Some(d)) => (n, d),
        _ => return json!({"harness_error": "bad n/d"}),
    };
    let limit = req["limit"].as_u64().unwrap_or(6) as usize;
    let exp = req["exp"].as_u64().unwrap_or(8) as usize;
    match catch_unwind(|| fmtcheck::render(&n, &d, limit, exp)) {
        Ok(t) => {
            let verdict = fmtcheck::judge_text(&n, &d, &t);
            json!({"text": t, "inproc": match verdict { Ok(_) => Value::Null, Err(e) => json!(e) }})
        }
        Err(p) => json!({"panic": vharness::panic_message(&p)}),
    }
}

fn op_compound(req: &Value) -> Value {
    let s = req["s"].as_str().unwrap_or("");
    match catch_unwind(|| s.parse::<Compound>()) {
        Ok(Ok(c)) => {
            let shown = catch_unwind(AssertUnwindSafe(|| {
                (c.display(false).to_string(), c.display(true).to_string())
            }));
            let (d, dp) = match shown {
                Ok(x) => x,
                Err(p) => return json!({"panic": vharness::panic_message(&p)}),
            };
            let cbor = serde_cbor::to_vec(&c).map(hex).unwrap_or_default();
            json!({"ok": {"u": unit_json(&c), "disp": d, "disp_pl": dp,
                          "has_num": c.has_numerator(), "is_empty": c.is_empty(), "cbor": cbor}})
        }
        Ok(Err(e)) => {
            let r = e.range();
            json!({"err": {"msg": e.to_string(), "start": r.start, "end": r.end}})
        }
        Err(p) => json!({"panic": vharness::panic_message(&p)}),
    }
}

/// C05 concatenation sweep: for every pair (a, b) the one-word spelling `ab` is parsed as a unit; if it is
/// accepted and reads differently from `a*b` (or `a*b` is not accepted), the word and its reading are reported
/// so that the segmentation oracle in Python can judge it. Agreeing pairs are only counted.
fn op_c05_concat(req: &Value) -> Value {
    let a = strs(&req["a"]);
    let b = strs(&req["b"]);
    let threads = (req["threads"].as_u64().unwrap_or(16) as usize).max(1);
    let chunks: Vec<Vec<String>> = (0..threads).map(|t| a.iter().skip(t).step_by(threads).cloned().collect()).collect();
    let results: Vec<(u64, u64, u64, Vec<Value>)> = std::thread::scope(|scope| {
        let handles: Vec<_> = chunks
            .iter()
            .map(|chunk| {
                let b = &b;
                scope.spawn(move || {
                    let (mut pairs, mut accepted, mut agree) = (0u64, 0u64, 0u64);
                    let mut out = Vec::new();
                    let mut word = String::new();
                    let mut prod = String::new();
                    for x in chunk {
                        for y in b {
                            pairs += 1;
                            word.clear();
                            word.push_str(x);
                            word.push_str(y);
                            let r1 = match catch_unwind(|| word.parse::<Compound>()) {
                                Ok(Ok(c)) => c,
                                Ok(Err(..)) => continue,
                                Err(p) => {
                                    out.push(json!({"word": word, "panic": vharness::panic_message(&p)}));
                                    continue;
                                }
                            };
                            accepted += 1;
                            prod.clear();
                            prod.push_str(x);
                            prod.push('*');
                            prod.push_str(y);
                            match catch_unwind(|| prod.parse::<Compound>()) {
                                Ok(Ok(c2)) if c2 == r1 => agree += 1,
                                _ => out.push(json!({"word": word, "a": x, "b": y, "u": unit_json(&r1)})),
                            }
                        }
                    }
                    (pairs, accepted, agree, out)
                })
            })
            .collect();
        handles.into_iter().filter_map(|h| h.join().ok()).collect()
    });
    let mut differing = Vec::new();
    let (mut pairs, mut accepted, mut agree) = (0u64, 0u64, 0u64);
    for (p, ac, ag, o) in results {
        pairs += p;
        accepted += ac;
        agree += ag;
        differing.extend(o);
    }
    json!({"pairs": pairs, "accepted": accepted, "agree_with_product": agree, "differing": differing})
}

fn hex(b: Vec<u8>) -> String {
    let mut s = String::with_capacity(b.len() * 2);
    for x in b {
        s.push_str(&format!("{:02x}", x));
    }
    s
}

fn unhex(s: &str) -> Option<Vec<u8>> {
    if s.len() % 2 != 0 {
        return None;
    }
    (0..s.len())
        .step_by(2)
        .map(|i| u8::from_str_radix(&s[i..i + 2], 16).ok())
        .collect()
}

fn op_lex(req: &Value) -> Value {
    let s = req["s"].as_str().unwrap_or("");
    match catch_unwind(|| lossless::check(s)) {
        Ok(Ok(stats)) if req["brief"].as_bool().unwrap_or(false) => {
            // (long inputs: only the counts)
            let toks = lossless::lex(s).unwrap_or_default();
            json!({"ok": {"n_tokens": toks.len(), "longest_token": toks.iter().map(|t| t.1).max().unwrap_or(0),
                          "inner": stats.inner, "max_depth": stats.max_depth}})
        }
        Ok(Ok(stats)) => {
            let toks = lossless::lex(s).unwrap_or_default();
            json!({"ok": {"tokens": toks.iter().map(|(k, l)| json!([format!("{:?}", k), l])).collect::<Vec<_>>(),
                          "inner": stats.inner, "max_depth": stats.max_depth}})
        }
        Ok(Err(e)) => json!({"violation": e}),
        Err(p) => json!({"panic": vharness::panic_message(&p)}),
    }
}

fn strs(v: &Value) -> Vec<String> {
    v.as_array()
        .map(|a| a.iter().filter_map(|x| x.as_str().map(|s| s.to_owned())).collect())
        .unwrap_or_default()
}

fn op_c12_sweep(req: &Value) -> Value {
    let alphabet = strs(&req["alphabet"]);
    let threads = req["threads"].as_u64().unwrap_or(16) as usize;
    let sw = if req["random"].is_object() {
        let r = &req["random"];
        lossless::sweep_random(
            &alphabet,
            r["min"].as_u64().unwrap_or(7) as usize,
            r["max"].as_u64().unwrap_or(200) as usize,
            r["count"].as_u64().unwrap_or(1000),
            r["seed"].as_u64().unwrap_or(0),
            threads,
        )
    } else {
        lossless::sweep_exhaustive(&alphabet, req["len"].as_u64().unwrap_or(1) as usize, threads)
    };

    json!({
        "strings": sw.strings, "pumped": sw.pumped, "interleaved": sw.interleaved, "tokens": sw.tokens, "inner_nodes": sw.inner_nodes,
        "max_depth": sw.max_depth,
        "distinct_token_kind_sequences": sw.distinct_token_kind_sequences,
        "distinct_tree_shapes": sw.distinct_tree_shapes,
        "violation_count": sw.violation_count, "panics": sw.panics,
        "violations": sw.violations.iter().map(|(s, e)| json!({"input": s, "what": e})).collect::<Vec<_>>(),
    })
}

fn op_c07_sweep(st: &mut State, req: &Value) -> Value {
    let symbols: Vec<u8> = req["symbols"].as_str().unwrap_or("017+-.eE%").bytes().collect();
    let max_len = req["max_len"].as_u64().unwrap_or(5) as usize;
    let sample_every = req["sample_every"].as_u64().unwrap_or(100).max(1);
    let db = match need_db(st) {
        Ok(db) => db,
        Err(e) => return json!({"harness_error": e}),
    };
    let threads = req["threads"].as_u64().unwrap_or(16) as usize;
    let max_exp_digits = req["max_exp_digits"].as_u64().unwrap_or(4) as usize;
    let sw = literal::sweep_exhaustive(db, &symbols, max_len, sample_every, threads, max_exp_digits);
    json!({
        "strings": sw.strings, "well_formed": sw.well_formed, "with_percent": sw.with_percent,
        "parser_checked": sw.parser_checked, "query_checked": sw.query_checked,
        "distinct_values": sw.distinct_values, "huge_exponent_skipped": sw.huge_exponent_skipped,
        "violation_count": sw.violation_count,
        "violations": sw.violations.iter().map(|(s, e)| json!({"input": s, "what": e})).collect::<Vec<_>>(),
        "sample": sw.sample.iter().map(|(s, n, d)| json!([s, n, d])).collect::<Vec<_>>(),
    })
}

fn op_c07_list(st: &mut State, req: &Value) -> Value {
    // Judge a list of literals in-process; also return what the tool read.
    let db = match need_db(st) {
        Ok(db) => db,
        Err(e) => return json!({"harness_error": e}),
    };
    let mut sw = literal::Sweep::default();
    let mut read = Vec::new();
    for lit in strs(&req["literals"]) {
        sw.strings += 1;
        match literal::judge(db, &lit, &mut sw) {
            Some(r) => read.push(json!([lit, r.numer().to_string(), r.denom().to_string()])),
            None => read.push(json!([lit, Value::Null, Value::Null])),
        }
    }
    json!({
        "strings": sw.strings, "well_formed": sw.well_formed,
        "parser_checked": sw.parser_checked, "query_checked": sw.query_checked,
        "violation_count": sw.violation_count,
        "violations": sw.violations.iter().map(|(s, e)| json!({"input": s, "what": e})).collect::<Vec<_>>(),
        "read": read,
    })
}

fn usizes(v: &Value) -> Vec<usize> {
    v.as_array()
        .map(|a| a.iter().filter_map(|x| x.as_u64().map(|s| s as usize)).collect())
        .unwrap_or_default()
}

fn c08_json(sw: fmtcheck::Sweep) -> Value {
    json!({
        "pairs": sw.pairs, "cut": sw.cut,
        "by_path": {"whole": sw.by_path[0], "leading_zero": sw.by_path[1], "big_exp": sw.by_path[2], "small_exp": sw.by_path[3]},
        "cut_by_path": {"whole": sw.cut_by_path[0], "leading_zero": sw.cut_by_path[1], "big_exp": sw.cut_by_path[2], "small_exp": sw.cut_by_path[3]},
        "violation_count": sw.violation_count, "panics": sw.panics,
        "violations": sw.violations.iter().map(|(n, d, l, e, t, w)| json!({"n": n, "d": d, "limit": l, "exp": e, "text": t, "what": w})).collect::<Vec<_>>(),
        "sample": sw.sample.iter().map(|(n, d, l, e, t)| json!([n, d, l, e, t])).collect::<Vec<_>>(),
    })
}

fn op_c08_grid(req: &Value) -> Value {
    let sw = fmtcheck::sweep_grid(
        req["nmax"].as_i64().unwrap_or(50),
        req["dmax"].as_i64().unwrap_or(30),
        &usizes(&req["limits"]),
        &usizes(&req["thresholds"]),
        req["stride"].as_u64().unwrap_or(1).max(1),
        req["offset"].as_u64().unwrap_or(0),
        req["sample_every"].as_u64().unwrap_or(1000).max(1),
        req["threads"].as_u64().unwrap_or(16) as usize,
    );
    c08_json(sw)
}

fn op_c08_list(req: &Value) -> Value {
    // values: [[n, d], ...] judged at every (limit, threshold).
    let limits = usizes(&req["limits"]);
    let thresholds = usizes(&req["thresholds"]);
    let sample_every = req["sample_every"].as_u64().unwrap_or(100).max(1);
    let mut sw = fmtcheck::Sweep::default();
    let mut k = 0u64;

    if let Some(vals) = req["values"].as_array() {
        for v in vals {
            let n = v[0].as_str().and_then(vharness::obs::parse_bigint);
            let d = v[1].as_str().and_then(vharness::obs::parse_bigint);
            if let (Some(n), Some(d)) = (n, d) {
                for &l in &limits {
                    for &e in &thresholds {
                        k += 1;
                        fmtcheck::judge_one(&n, &d, l, e, k % sample_every == 0, &mut sw);
                    }
                }
            }
        }
    }

    c08_json(sw)
}

fn parts_of(v: &Value) -> Vec<(String, i64, i64)> {
    v.as_array()
        .map(|a| {
            a.iter()
                .map(|p| {
                    (
                        p[0].as_str().unwrap_or("").to_owned(),
                        p[1].as_i64().unwrap_or(0),
                        p[2].as_i64().unwrap_or(0),
                    )
                })
                .collect()
        })
        .unwrap_or_default()
}

fn op_c17_compounds(req: &Value) -> Value {
    // Random compounds over the given keys, generated in-process.
    let keys = strs(&req["keys"]);
    let count = req["count"].as_u64().unwrap_or(1000);
    let seed = req["seed"].as_u64().unwrap_or(0);
    let mut rng = vharness::Rng::new(seed);
    let mut ok = 0u64;
    let mut distinct = std::collections::HashSet::new();
    let mut violations = Vec::new();
    let mut vcount = 0u64;
    let mut sample = Vec::new();
    let prefixes = [-24, -21, -18, -15, -12, -9, -6, -3, -2, -1, 0, 0, 0, 1, 2, 3, 6, 9, 12, 15, 18, 21, 24];
    let mut mutated = 0u64;
    let mut with_zero = 0u64;

    for i in 0..count {
        // mostly 1-6 units; now and then none at all (the empty unit) or dozens
        let n = match rng.below(100) {
            0 => 0,
            1 | 2 => rng.range(20, 60) as usize,
            _ => rng.range(1, 6) as usize,
        };
        let mut parts: Vec<(String, i64, i64)> = Vec::new();
        for _ in 0..n {
            let k = keys[rng.below(keys.len() as u64) as usize].clone();
            if parts.iter().any(|p| p.0 == k) {
                continue;
            }
            let mut p = rng.range(-9, 9);
            if p == 0 {
                p = 1;
            }
            let mut x = prefixes[rng.below(prefixes.len() as u64) as usize];
            // Width boundaries of the two stored integers: an encoding that narrows them (i8/i16/u8)
            // round-trips every everyday value and fails exactly here.
            const WIDTHS: [i64; 14] = [127, 128, 129, 255, 256, 257, 32767, 32768, 32769, 65535, 65536, 65537, 2147483646, 2147483647];
            if rng.chance(40) {
                p = WIDTHS[rng.below(14) as usize] * if rng.chance(500) { -1 } else { 1 };
            }
            if rng.chance(40) {
                // (prefixes stay well inside i32: the displayed prefix adds a per-unit bias, and no unit
                // expression can produce a prefix beyond +-24 anyway)
                x = WIDTHS[rng.below(12) as usize] * if rng.chance(500) { -1 } else { 1 };
            }
            parts.push((k, p, x));
        }

        // Every eighth compound (everyday powers only) is changed through the public `update` / `update_power` before it is
        // written: cancelled units (power 0), units added later, powers overwritten (seed C17-g).
        if i % 8 == 3 && parts.iter().all(|p| p.1.abs() < 100) && !parts.is_empty() {
            let mut muts = Vec::new();
            for _ in 0..rng.range(1, 4) {
                let existing = rng.chance(600);
                let (key, prefix) = if existing {
                    let p = &parts[rng.below(parts.len() as u64) as usize];
                    (p.0.clone(), if rng.chance(800) { p.2 } else { 0 })
                } else {
                    (keys[rng.below(keys.len() as u64) as usize].clone(), prefixes[rng.below(prefixes.len() as u64) as usize])
                };
                let kind = if rng.chance(500) { 0u8 } else { 1u8 };
                let power = if rng.chance(400) { 0 } else { rng.range(-9, 9) };
                muts.push((kind, key, power, prefix));
            }
            match catch_unwind(|| serdert::compound_mutated_roundtrip(&parts, &muts)) {
                Ok(Ok(z)) => {
                    ok += 1;
                    mutated += 1;
                    if z > 0 {
                        with_zero += 1;
                    }
                }
                Ok(Err(e)) => {
                    vcount += 1;
                    if violations.len() < 20 {
                        violations.push(json!({"parts": parts.iter().map(|(k, p, x)| json!([k, p, x])).collect::<Vec<_>>(), "changes": muts.iter().map(|(a, b, c, d)| json!([if *a == 0 { "update" } else { "update_power" }, b, c, d])).collect::<Vec<_>>(), "what": e}));
                    }
                }
                Err(p) => {
                    vcount += 1;
                    if violations.len() < 20 {
                        violations.push(json!({"parts": parts.iter().map(|(k, p, x)| json!([k, p, x])).collect::<Vec<_>>(), "changes": muts.iter().map(|(a, b, c, d)| json!([a, b, c, d])).collect::<Vec<_>>(), "what": format!("panic: {}", vharness::panic_message(&p))}));
                    }
                }
            }
            continue;
        }

        match catch_unwind(|| serdert::compound_roundtrip(&parts)) {
            Ok(Ok(d)) => {
                ok += 1;
                if i % (count / 5 + 1) == 0 {
                    sample.push(json!({"parts": parts.iter().map(|(k, p, x)| json!([k, p, x])).collect::<Vec<_>>(), "display": d}));
                }
                let mut sorted = parts.clone();
                sorted.sort();
                distinct.insert(sorted);
            }
            Ok(Err(e)) => {
                vcount += 1;
                if violations.len() < 20 {
                    violations.push(json!({"parts": parts.iter().map(|(k, p, x)| json!([k, p, x])).collect::<Vec<_>>(), "what": e}));
                }
            }
            Err(p) => {
                vcount += 1;
                if violations.len() < 20 {
                    violations.push(json!({"parts": parts.iter().map(|(k, p, x)| json!([k, p, x])).collect::<Vec<_>>(), "what": format!("panic: {}", vharness::panic_message(&p))}));
                }
            }
        }
    }

    json!({"count": count, "ok": ok, "distinct": distinct.len(), "violation_count": vcount, "violations": violations, "sample": sample,
           "changed_through_update": mutated, "written_with_a_cancelled_unit": with_zero})
}

fn op_c17_rationals(req: &Value) -> Value {
    let count = req["count"].as_u64().unwrap_or(1000);
    let seed = req["seed"].as_u64().unwrap_or(0);
    let max_bits = req["max_bits"].as_u64().unwrap_or(2000);
    let mut rng = vharness::Rng::new(seed ^ 0xabcdef);
    let mut ok = 0u64;
    let mut vcount = 0u64;
    let mut violations = Vec::new();
    let mut sample = Vec::new();
    let mut distinct = std::collections::HashSet::new();

    let mut big = |rng: &mut vharness::Rng, bits: u64| {
        let mut n = num::BigInt::from(0u32);
        let words = bits / 64 + 1;
        for _ in 0..words {
            n = (n << 64) + num::BigInt::from(rng.next());
        }
        n >> ((words * 64 - bits) as usize)
    };

    for i in 0..count {
        let nb = match rng.below(4) {
            0 => rng.below(8),
            1 => rng.below(70),
            _ => rng.below(max_bits + 1),
        };
        let db_ = match rng.below(4) {
            0 => 1,
            1 => rng.below(70) + 1,
            _ => rng.below(max_bits) + 1,
        };
        let mut n = big(&mut rng, nb);
        let mut d = big(&mut rng, db_);
        // Structured values: limb-aligned (all low 32/64-bit digits zero), powers of two and of ten and their
        // neighbours. A decoder that looks at the wrong end of the digit vector, or a fixed-width fast path,
        // fails on exactly these and on (almost) no uniformly random value.
        let structured = |rng: &mut vharness::Rng| -> num::BigInt {
            let m = num::BigInt::from([1u64, 1, 3, 5, 7, 255, 1_000_003, 0xffff_ffff, 0x1_0000_0001][rng.below(9) as usize]);
            match rng.below(5) {
                0 => m << (32 * (1 + rng.below(8)) as usize),
                1 => m << (64 * (1 + rng.below(4)) as usize),
                2 => (num::BigInt::from(1u32) << ([7u64, 8, 15, 16, 31, 32, 33, 63, 64, 65, 127, 128, 129, 255, 256][rng.below(15) as usize] as usize)) + num::BigInt::from(rng.range(-2, 2)),
                3 => m * num::pow(num::BigInt::from(10u32), rng.below(60) as usize),
                _ => (m << (rng.below(300) as usize)) + num::BigInt::from(rng.range(-1, 1)),
            }
        };
        if rng.chance(250) {
            n = structured(&mut rng);
        }
        if rng.chance(120) {
            d = structured(&mut rng);
            if d < num::BigInt::from(1u32) {
                d = num::BigInt::from(1u32);
            }
        }
        if num::Zero::is_zero(&d) {
            d = num::BigInt::from(1u32);
        }
        if rng.chance(500) {
            n = -n;
        }
        if rng.chance(20) {
            n = num::BigInt::from(0u32);
        }

        match catch_unwind(|| serdert::rational_roundtrip(&n, &d)) {
            Ok(Ok(())) => {
                ok += 1;
                if distinct.len() < 200_000 {
                    distinct.insert((n.clone(), d.clone()));
                }
                if i % (count / 4 + 1) == 0 {
                    sample.push(json!([n.to_string(), d.to_string()]));
                }
            }
            Ok(Err(e)) => {
                vcount += 1;
                if violations.len() < 20 {
                    violations.push(json!({"n": n.to_string(), "d": d.to_string(), "what": e}));
                }
            }
            Err(p) => {
                vcount += 1;
                if violations.len() < 20 {
                    violations.push(json!({"n": n.to_string(), "d": d.to_string(), "what": format!("panic: {}", vharness::panic_message(&p))}));
                }
            }
        }
    }

    json!({"count": count, "ok": ok, "distinct": distinct.len(), "violation_count": vcount, "violations": violations, "sample": sample})
}

fn cbor_to_json(v: &serde_cbor::Value) -> Value {
    use serde_cbor::Value as C;
    match v {
        C::Null => Value::Null,
        C::Bool(b) => json!(b),
        C::Integer(i) => json!(i.to_string()),
        C::Float(f) => json!(f),
        C::Bytes(b) => json!({"bytes": hex(b.clone())}),
        C::Text(t) => json!(t),
        C::Array(a) => Value::Array(a.iter().map(cbor_to_json).collect()),
        C::Map(m) => Value::Array(
            m.iter()
                .map(|(k, v)| json!([cbor_to_json(k), cbor_to_json(v)]))
                .collect(),
        ),
        _ => json!("<other>"),
    }
}

fn op_shipped(req: &Value) -> Value {
    // Generic decode of the shipped data files; optionally the C17 constant
    // round trip for each of them.
    let dir = std::path::PathBuf::from(req["dir"].as_str().unwrap_or("/repo/db"));
    let roundtrip = req["roundtrip"].as_bool().unwrap_or(false);
    let constants = match idx::shipped_constants(&dir) {
        Ok(c) => c,
        Err(e) => return json!({"harness_error": e}),
    };
    let sources = idx::shipped_sources(&dir).unwrap_or_default();
    let mut out = Vec::new();

    for (file, c) in &constants {
        let mut o = json!({"file": file, "generic": cbor_to_json(c)});
        if roundtrip {
            o["roundtrip"] = match catch_unwind(|| serdert::constant_roundtrip(c)) {
                Ok(Ok(())) => Value::Null,
                Ok(Err(e)) => json!(e),
                Err(p) => json!(format!("panic: {}", vharness::panic_message(&p))),
            };
            // Typed view for SI comparison.
            let bytes = serde_cbor::to_vec(c).unwrap_or_default();
            if let Ok(k) = serde_cbor::from_slice::<anything::Constant>(&bytes) {
                o["typed"] = json!({"v": rational_json(&k.value), "u": unit_json(&k.unit), "source": k.source,
                                    "description": &*k.description,
                                    "tokens": k.tokens.iter().map(|t| t.to_string()).collect::<Vec<_>>()});
            }
        }
        out.push(o);
    }

    json!({"constants": out, "sources": sources.iter().map(cbor_to_json).collect::<Vec<_>>()})
}

fn op_compound_rt(req: &Value) -> Value {
    let parts = parts_of(&req["parts"]);
    match catch_unwind(|| serdert::compound_roundtrip(&parts)) {
        Ok(Ok(d)) => json!({"ok": d}),
        Ok(Err(e)) => json!({"violation": e}),
        Err(p) => json!({"panic": vharness::panic_message(&p)}),
    }
}

/// C17: identifiers that are NOT units must be refused every time they are decoded, also on a thread that has decoded many
/// units before (a decode memo that claims its slot before it knows the id; seed C17-i).
fn op_c17_unknown_ids(req: &Value) -> Value {
    let known = strs(&req["known"]);
    let unknown = strs(&req["unknown"]);
    let repeats = req["repeats"].as_u64().unwrap_or(3);
    let mut accepted = Vec::new();
    let mut decoded = 0u64;
    let r = catch_unwind(|| {
        let mut accepted = Vec::new();
        let mut decoded = 0u64;
        let decode = |key: &str| -> Result<Compound, String> {
            let v = serdert::compound_value(&[(key.to_owned(), 1, 0), ("Meter".to_owned(), -2, 3)]).ok_or("bad key")?;
            let bytes = serde_cbor::to_vec(&v).map_err(|e| e.to_string())?;
            serde_cbor::from_slice::<Compound>(&bytes).map_err(|e| e.to_string())
        };
        for (i, u) in unknown.iter().enumerate() {
            // warm up with a few known units between the unknown ones
            for k in 0..5 {
                if !known.is_empty() {
                    let _ = decode(&known[(i * 5 + k) % known.len()]);
                    decoded += 1;
                }
            }
            for attempt in 0..repeats {
                decoded += 1;
                if let Ok(c) = decode(u) {
                    accepted.push(json!({"id": u, "attempt": attempt, "decoded_as": c.to_string()}));
                    break;
                }
            }
        }
        (accepted, decoded)
    });
    match r {
        Ok((a, d)) => {
            accepted = a;
            decoded = d;
        }
        Err(p) => return json!({"panic": vharness::panic_message(&p)}),
    }
    json!({"decoded": decoded, "unknown": unknown.len(), "accepted": accepted})
}

fn op_cbor_decode_compound(req: &Value) -> Value {
    let bytes = match unhex(req["hex"].as_str().unwrap_or("")) {
        Some(b) => b,
        None => return json!({"harness_error": "bad hex"}),
    };
    match catch_unwind(|| serde_cbor::from_slice::<Compound>(&bytes)) {
        Ok(Ok(c)) => json!({"ok": {"u": unit_json(&c), "disp": c.to_string()}}),
        Ok(Err(e)) => json!({"err": e.to_string()}),
        Err(p) => json!({"panic": vharness::panic_message(&p)}),
    }
}

/// C17: synthetic constants (unit given by parts, value n/d, tokens, description, source) through CBOR and back;
/// every field and the unit's structure must survive, also through a generic CBOR value (canonical key order).
fn op_c17_constants(req: &Value) -> Value {
    let mut ok = 0u64;
    let mut violations = Vec::new();
    let mut count = 0u64;
    for case in req["cases"].as_array().cloned().unwrap_or_default() {
        count += 1;
        let parts = parts_of(&case["parts"]);
        let r = catch_unwind(|| -> Result<(), String> {
            let unit: Compound = serde_cbor::value::from_value(serdert::compound_value(&parts).ok_or("bad key")?).map_err(|e| format!("unit from parts: {e}"))?;
            let n = vharness::obs::parse_bigint(case["n"].as_str().unwrap_or("0")).ok_or("n")?;
            let d = vharness::obs::parse_bigint(case["d"].as_str().unwrap_or("1")).ok_or("d")?;
            let c = anything::Constant {
                source: case["source"].as_u64(),
                tokens: strs(&case["tokens"]).into_iter().map(|t| t.into_boxed_str()).collect(),
                description: case["description"].as_str().unwrap_or("").into(),
                value: Rational::new(n, d),
                unit,
            };
            let bytes = serde_cbor::to_vec(&c).map_err(|e| format!("encode: {e}"))?;
            let generic: serde_cbor::Value = serde_cbor::from_slice(&bytes).map_err(|e| format!("generic decode: {e}"))?;
            let bytes2 = serde_cbor::to_vec(&generic).map_err(|e| format!("generic encode: {e}"))?;
            for (label, b) in [("direct", &bytes), ("through a generic CBOR value", &bytes2)] {
                let back: anything::Constant = serde_cbor::from_slice(b).map_err(|e| format!("decode ({label}): {e}"))?;
                if back.source != c.source || back.tokens != c.tokens || back.description != c.description {
                    return Err(format!("{label}: source/tokens/description changed"));
                }
                if back.value != c.value {
                    return Err(format!("{label}: value changed: wrote {}/{} read {}/{}", c.value.numer(), c.value.denom(), back.value.numer(), back.value.denom()));
                }
                if back.unit != c.unit {
                    return Err(format!("{label}: unit changed: wrote `{}` read `{}`", c.unit, back.unit));
                }
                let mut got = vharness::obs::unit_parts(&back.unit)?;
                got.sort();
                let mut want = parts.clone();
                want.sort();
                if got != want {
                    return Err(format!("{label}: unit structure changed: wrote {:?} read {:?}", want, got));
                }
            }
            Ok(())
        });
        match r {
            Ok(Ok(())) => ok += 1,
            Ok(Err(e)) => {
                if violations.len() < 20 {
                    violations.push(json!({"case": case, "what": e}));
                }
            }
            Err(p) => {
                if violations.len() < 20 {
                    violations.push(json!({"case": case, "what": format!("panic: {}", vharness::panic_message(&p))}));
                }
            }
        }
    }
    json!({"count": count, "ok": ok, "violation_count": count - ok, "violations": violations})
}

fn op_db(st: &mut State, req: &Value) -> Value {
    let mode = req["mode"].as_str().unwrap_or("in_memory");
    st.db = None;
    let started = std::time::Instant::now();
    let r = catch_unwind(|| match mode {
        "disk" => Db::open(),
        _ => Db::in_memory(),
    });
    match r {
        Ok(Ok(db)) => {
            let segs = db.verif_segments();
            st.db = Some(db);
            json!({"ok": {"segments": segs.iter().map(|(id, m, d)| json!([id, m, d])).collect::<Vec<_>>(),
                          "ms": started.elapsed().as_millis() as u64}})
        }
        Ok(Err(e)) => json!({"err": format!("{e:#}")}),
        Err(p) => json!({"panic": vharness::panic_message(&p)}),
    }
}

fn op_topk(st: &mut State, req: &Value) -> Value {
    let k = req["k"].as_u64().unwrap_or(2) as usize;
    let phrase = req["phrase"].as_str().unwrap_or("").to_owned();
    let db = match need_db(st) {
        Ok(db) => db,
        Err(e) => return json!({"harness_error": e}),
    };
    match catch_unwind(AssertUnwindSafe(|| db.verif_topk(&phrase, k))) {
        Ok(Ok(v)) => json!({"ok": v.iter().map(|(s, seg, doc, d)| json!([s, seg, doc, d])).collect::<Vec<_>>()}),
        Ok(Err(e)) => json!({"err": e.to_string()}),
        Err(p) => json!({"panic": vharness::panic_message(&p)}),
    }
}

fn op_read_index(req: &Value) -> Value {
    let dir = std::path::PathBuf::from(req["dir"].as_str().unwrap_or(""));
    match catch_unwind(|| idx::read_payloads(&dir)) {
        Ok(Ok(p)) => {
            // Multiset digest of payloads: sorted hex of a 64-bit hash each.
            use std::hash::{Hash, Hasher};
            let mut hs: Vec<u64> = p
                .iter()
                .map(|b| {
                    let mut h = std::collections::hash_map::DefaultHasher::new();
                    b.hash(&mut h);
                    h.finish()
                })
                .collect();
            hs.sort();
            let mut h = std::collections::hash_map::DefaultHasher::new();
            hs.hash(&mut h);
            let descs: Vec<String> = if req["descriptions"].as_bool().unwrap_or(false) {
                p.iter()
                    .map(|b| {
                        serde_cbor::from_slice::<serde_cbor::Value>(b)
                            .ok()
                            .and_then(|v| match v {
                                serde_cbor::Value::Map(m) => m
                                    .get(&serde_cbor::Value::Text("description".into()))
                                    .and_then(|d| match d {
                                        serde_cbor::Value::Text(t) => Some(t.clone()),
                                        _ => None,
                                    }),
                                _ => None,
                            })
                            .unwrap_or_default()
                    })
                    .collect()
            } else {
                Vec::new()
            };
            json!({"ok": {"docs": p.len(), "digest": format!("{:016x}", h.finish()), "descriptions": descs}})
        }
        Ok(Err(e)) => json!({"err": e}),
        Err(p) => json!({"panic": vharness::panic_message(&p)}),
    }
}

fn op_expected_payload_digest(req: &Value) -> Value {
    // The digest `read_index` must produce for an index holding exactly the
    // shipped constants, computed from the data files with the same encoding
    // step the loader uses (generic CBOR value -> bytes).
    use std::hash::{Hash, Hasher};
    let dir = std::path::PathBuf::from(req["dir"].as_str().unwrap_or("/repo/db"));
    let constants = match idx::shipped_constants(&dir) {
        Ok(c) => c,
        Err(e) => return json!({"harness_error": e}),
    };
    let mut hs: Vec<u64> = Vec::new();
    for (_, c) in &constants {
        // The loader re-encodes `tokens` first and then the flattened rest.
        let bytes = encode_like_loader(c);
        let mut h = std::collections::hash_map::DefaultHasher::new();
        bytes.hash(&mut h);
        hs.push(h.finish());
    }
    hs.sort();
    let mut h = std::collections::hash_map::DefaultHasher::new();
    hs.hash(&mut h);
    json!({"ok": {"docs": constants.len(), "digest": format!("{:016x}", h.finish())}})
}

#[derive(serde::Serialize, serde::Deserialize)]
struct PartialConstantLike {
    tokens: Vec<Box<str>>,
    #[serde(flatten)]
    content: serde_cbor::Value,
}

fn encode_like_loader(c: &serde_cbor::Value) -> Vec<u8> {
    let bytes = serde_cbor::to_vec(c).unwrap_or_default();
    match serde_cbor::from_slice::<PartialConstantLike>(&bytes) {
        Ok(p) => serde_cbor::to_vec(&p).unwrap_or_default(),
        Err(_) => Vec::new(),
    }
}

fn op_build_foreign(req: &Value) -> Value {
    let dir = std::path::PathBuf::from(req["dir"].as_str().unwrap_or(""));
    let mut docs = Vec::new();

    if let Some(a) = req["docs"].as_array() {
        for d in a {
            let tokens = strs(&d["tokens"]);
            let c = anything::Constant {
                source: None,
                tokens: tokens.iter().map(|t| t.clone().into_boxed_str()).collect(),
                description: d["description"].as_str().unwrap_or("poison").into(),
                value: Rational::new(d["value"].as_i64().unwrap_or(-424242), 1),
                unit: Compound::empty(),
            };
            docs.push((tokens, serde_cbor::to_vec(&c).unwrap_or_default()));
        }
    }

    let words_layout = req["layout"].as_str() == Some("words");

    let other_fields = req["layout"].as_str() == Some("fields");

    match catch_unwind(|| if other_fields { idx::build_foreign_fields(&dir, &docs) } else { idx::build_foreign(&dir, &docs, words_layout) }) {
        Ok(Ok(())) => json!({"ok": docs.len()}),
        Ok(Err(e)) => json!({"err": e}),
        Err(p) => json!({"panic": vharness::panic_message(&p)}),
    }
}

fn handle(st: &mut State, req: &Value) -> Value {
    match req["op"].as_str().unwrap_or("") {
        "ping" => json!({"pong": true, "debug_assertions": cfg!(debug_assertions)}),
        "query" => op_query(st, req),
        "interleave" => op_interleave(st, req),
        "rational" => op_rational(req),
        "display" => op_display(req),
        "compound" => op_compound(req),
        "c05_concat" => op_c05_concat(req),
        "lex" => op_lex(req),
        "c12_sweep" => op_c12_sweep(req),
        "c07_sweep" => op_c07_sweep(st, req),
        "c07_list" => op_c07_list(st, req),
        "c08_grid" => op_c08_grid(req),
        "c08_list" => op_c08_list(req),
        "c17_compounds" => op_c17_compounds(req),
        "c17_rationals" => op_c17_rationals(req),
        "c17_constants" => op_c17_constants(req),
        "c17_unknown_ids" => op_c17_unknown_ids(req),
        "compound_rt" => op_compound_rt(req),
        "cbor_decode_compound" => op_cbor_decode_compound(req),
        "shipped" => op_shipped(req),
        "db" => op_db(st, req),
        "topk" => op_topk(st, req),
        "read_index" => op_read_index(req),
        "expected_payload_digest" => op_expected_payload_digest(req),
        "build_foreign" => op_build_foreign(req),
        other => json!({"harness_error": format!("unknown op {other:?}")}),
    }
}

fn main() {
    // With RUST_LOG set a logger is installed, exactly as the `any` binary does: whether log output is enabled must not
    // change any result (lazily evaluated log arguments with side effects; seed C03-e). Output goes to stderr.
    if std::env::var_os("RUST_LOG").is_some() {
        let _ = pretty_env_logger::try_init();
    }
    vharness::install_quiet_panic_hook();
    let stdin = std::io::stdin();
    let stdout = std::io::stdout();
    let mut out = stdout.lock();
    let mut st = State { db: None };

    for line in stdin.lock().lines() {
        let line = match line {
            Ok(l) => l,
            Err(_) => break,
        };

        if line.trim().is_empty() {
            continue;
        }

        let reply = match serde_json::from_str::<Value>(&line) {
            Ok(req) => {
                let mut r = handle(&mut st, &req);
                if let Some(id) = req.get("id") {
                    r["id"] = id.clone();
                }
                r
            }
            Err(e) => json!({"harness_error": format!("bad request: {e}")}),
        };

        let _ = writeln!(out, "{}", reply);
        let _ = out.flush();
    }
}
