// The real `any` program: /repo's own main source, compiled against /repo's
// library with the harness' build settings (so it shares the dependency build).
include!("/repo/src/bin/any.rs");
