//! Db-free workload for `cargo +nightly miri run`: the lexer, the parser/tree builder, the number reader, the
//! decimal formatter and the unit-word parser are driven with generated inputs while the in-process monitors
//! judge them; Miri watches the `unsafe` code of the dependencies (syntree, logos, num-bigint) underneath.
//! usage: vmiri <seed> <count>
use anything::Compound;
use num::BigInt;
use vharness::{fmtcheck, literal, lossless, Rng};

const ALPHABET: &[&str] = &[
    "0", "1", "9", ".", "e", "E", "+", "-", "*", "/", "^", "%", ",", "(", ")", "{", "}", "'", "°", "m", "k", "s", "t", "o",
    "a", "K", "é", "π", "μ", "Ω", "…", " ", "\t", "\n", "\u{a0}", "\u{3000}", "_", ":", "\"", "x",
];
const UNITS: &[&str] = &["m", "km", "kg", "s", "N", "J/N", "m/s^2", "dal", "zeV", "°C", "mi/h", "kWh", "btu", "floz", "Gbtu", "x", "m^", "/", "kg*m^2/s^3*A"];

fn main() {
    let args: Vec<String> = std::env::args().collect();
    let seed: u64 = args.get(1).and_then(|s| s.parse().ok()).unwrap_or(0);
    let count: u64 = args.get(2).and_then(|s| s.parse().ok()).unwrap_or(50);
    let mut rng = Rng::new(seed);
    let (mut strings, mut lits, mut fmts, mut units) = (0u64, 0u64, 0u64, 0u64);
    let mut violations: Vec<String> = Vec::new();

    for _ in 0..count {
        // C12: lossless lexing and parsing
        let n = rng.range(0, 12) as usize;
        let mut s = String::new();
        for _ in 0..n {
            s.push_str(ALPHABET[rng.below(ALPHABET.len() as u64) as usize]);
        }
        strings += 1;
        if let Err(e) = lossless::check(&s) {
            violations.push(format!("C12 {:?}: {}", s, e));
        }

        // C07: number reader against the independent reader
        let mut l = String::new();
        if rng.chance(300) {
            l.push(if rng.chance(500) { '-' } else { '+' });
        }
        for _ in 0..rng.range(1, 12) {
            l.push((b'0' + rng.below(10) as u8) as char);
        }
        if rng.chance(500) {
            l.push('.');
            for _ in 0..rng.range(0, 8) {
                l.push((b'0' + rng.below(10) as u8) as char);
            }
        }
        if rng.chance(300) {
            l.push('e');
            if rng.chance(500) {
                l.push('-');
            }
            l.push_str(&rng.range(0, 40).to_string());
        }
        lits += 1;
        match (literal::exact_literal(&l), l.parse::<anything::Rational>()) {
            (Some(e), Ok(r)) => {
                if r.numer() != e.numer() || r.denom() != e.denom() {
                    violations.push(format!("C07 {:?}: read {}/{}", l, r.numer(), r.denom()));
                }
            }
            (Some(_), Err(e)) => violations.push(format!("C07 {:?}: rejected: {}", l, e)),
            _ => {}
        }

        // C08: formatter
        let mut sw = fmtcheck::Sweep::default();
        let nn = BigInt::from(rng.range(-1_000_000_000, 1_000_000_000)) * BigInt::from(rng.range(1, 1_000_000));
        let dd = BigInt::from(rng.range(1, 1_000_000));
        fmtcheck::judge_one(&nn, &dd, rng.range(1, 20) as usize, rng.range(1, 15) as usize, false, &mut sw);
        fmts += 1;
        for v in sw.violations {
            violations.push(format!("C08 {}/{} ({},{}) {:?}: {}", v.0, v.1, v.2, v.3, v.4, v.5));
        }

        // unit-word parser and unit display
        let u = UNITS[rng.below(UNITS.len() as u64) as usize];
        units += 1;
        if let Ok(c) = u.parse::<Compound>() {
            let _ = c.display(true).to_string();
            let _ = c.has_numerator();
        }
    }

    println!(
        "{{\"strings\": {}, \"literals\": {}, \"formatted\": {}, \"unit_words\": {}, \"violations\": {:?}}}",
        strings, lits, fmts, units, violations
    );
    if !violations.is_empty() {
        std::process::exit(1);
    }
}
