//! Coverage-guided workload for C11 (thorough tier): the same observation points as vdriver's `query` op, as an
//! in-process monitor. A panic anywhere (library, Display, diagnostic renderer) or a failed check aborts the process,
//! which libFuzzer records as a crash artifact; the Python monitor re-judges every artifact through vdriver.
#![no_main]

use anything::Db;
use codespan_reporting::diagnostic::{Diagnostic, Label};
use codespan_reporting::files::SimpleFiles;
use codespan_reporting::term;
use codespan_reporting::term::termcolor::Buffer;
use libfuzzer_sys::fuzz_target;
use std::sync::OnceLock;

static DB: OnceLock<Db> = OnceLock::new();

/// The property's bounds (DESIGN.md C11): <= 320 bytes (token soups <= 40 tokens, pumped strings up to 300 characters), exponent notation of <= 3 digits, a power is an integer
/// literal of <= 2 digits and the product of all power magnitudes is <= 100, round's digits argument <= 2 digits.
/// Inputs outside the bounds are not executed (outside them the power loop simply runs for minutes).
fn in_bounds(s: &str) -> bool {
    if s.len() > 320 {
        return false;
    }
    let b = s.as_bytes();
    let n = b.len();
    // (the budget shrinks with the largest exponent-notation literal and the longest digit run, as in c11.bound_powers: no input
    // denotes more than ~40 000 digits)
    let mut emax: u32 = 0;
    let mut longest: u32 = 1;
    {
        let mut j = 0;
        while j < n {
            if b[j].is_ascii_digit() {
                let d0 = j;
                while j < n && b[j].is_ascii_digit() {
                    j += 1;
                }
                longest = longest.max((j - d0) as u32);
                if d0 >= 1 && (b[d0 - 1] == b'e' || b[d0 - 1] == b'E' || ((b[d0 - 1] == b'+' || b[d0 - 1] == b'-') && d0 >= 2 && (b[d0 - 2] == b'e' || b[d0 - 2] == b'E'))) {
                    emax = emax.max(s[d0..j.min(d0 + 3)].parse().unwrap_or(999));
                }
            } else {
                j += 1;
            }
        }
    }
    let mut budget: u32 = (40000 / (emax + longest + 1)).clamp(2, 600);
    let mut i = 0;
    while i < n {
        let c = b[i];
        let op_len = if c == b'^' {
            1
        } else if c == b'*' && i + 1 < n && b[i + 1] == b'*' {
            2
        } else {
            0
        };
        if op_len > 0 {
            let mut k = i + op_len;
            while k < n && (b[k] == b' ' || b[k] == b'\t') {
                k += 1;
            }
            if k < n && (b[k] == b'+' || b[k] == b'-') {
                k += 1;
            }
            let d0 = k;
            while k < n && b[k].is_ascii_digit() {
                k += 1;
            }
            let nd = k - d0;
            if nd == 0 || nd > 2 {
                return false;
            }
            if k < n && (b[k] == b'.' || b[k] == b'e' || b[k] == b'E') {
                return false;
            }
            let mag: u32 = s[d0..k].parse().unwrap_or(100);
            if mag > 1 {
                if mag > budget {
                    return false;
                }
                budget /= mag;
            }
            i = k;
            continue;
        }
        if (c == b'e' || c == b'E') && i > 0 && (b[i - 1].is_ascii_digit() || b[i - 1] == b'.') {
            let mut k = i + 1;
            if k < n && (b[k] == b'+' || b[k] == b'-') {
                k += 1;
            }
            let d0 = k;
            while k < n && b[k].is_ascii_digit() {
                k += 1;
            }
            if k - d0 > 3 {
                return false;
            }
        }
        i += 1;
    }
    // round(x, n): n must be a literal of at most two digits
    let mut from = 0;
    while let Some(p) = s[from..].find("round") {
        let start = from + p + 5;
        from = start;
        let rest = &s[start..];
        if let Some(comma) = rest.find(',') {
            let after = rest[comma + 1..].trim_start_matches(|c| c == ' ' || c == '\t');
            let after = after.strip_prefix(|c| c == '+' || c == '-').unwrap_or(after);
            let digits = after.bytes().take_while(|c| c.is_ascii_digit()).count();
            if digits == 0 || digits > 2 {
                return false;
            }
            let tail = after[digits..].trim_start_matches(|c| c == ' ' || c == '\t');
            if !tail.starts_with(')') {
                return false;
            }
        }
    }
    let mut tokens = 0;
    for t in anything::syntax::lexer::Lexer::new(s) {
        if t.kind != anything::syntax::parser::Syntax::WHITESPACE {
            tokens += 1;
        }
        if tokens > 300 {
            return false;
        }
    }
    true
}

fuzz_target!(|data: &[u8]| {
    let q = match std::str::from_utf8(data) {
        Ok(q) => q,
        Err(_) => return,
    };
    if !in_bounds(q) {
        return;
    }
    let db = DB.get_or_init(|| Db::in_memory().expect("in-memory database"));
    let parsed = match anything::parse(q) {
        Ok(p) => p,
        Err(e) => panic!("C11-MONITOR no result sequence: parse failed: {e:#}"),
    };
    let mut descriptions = Vec::new();
    for item in anything::query(&parsed, db, anything::Options::default().describe(), &mut descriptions) {
        match item {
            Ok(n) => {
                let _ = n.unit.display(false).to_string();
                let _ = n.unit.display(true).to_string();
                let _ = n.unit.has_numerator();
                let _ = n.value.display(&Default::default()).to_string();
            }
            Err(e) => {
                let r = e.range();
                if !(r.start <= r.end && r.end <= q.len() && q.is_char_boundary(r.start) && q.is_char_boundary(r.end)) {
                    panic!("C11-MONITOR error range {:?} is not inside the input on character boundaries (len {})", r, q.len());
                }
                let mut files = SimpleFiles::new();
                let id = files.add("<in>", q.to_owned());
                let labels = vec![Label::primary(id, r).with_message(e.to_string())];
                let diagnostic = Diagnostic::error().with_message(e.to_string()).with_labels(labels);
                let mut buf = Buffer::no_color();
                if let Err(err) = term::emit(&mut buf, &term::Config::default(), &files, &diagnostic) {
                    panic!("C11-MONITOR diagnostic cannot be rendered: {err}");
                }
            }
        }
    }
});
