#!/bin/bash
# For each fix: commit of /repo: revert it in the working tree (uncommitted), run the named quick checks, restore.
# usage: tools/revert_test.sh  (prints one line per (commit, check))
cd /repo || exit 1
test -z "$(git status --porcelain)" || { echo "/repo not clean"; exit 1; }
run() { # commit checks...
  c=$1; shift
  if ! git revert --no-commit $c >/dev/null 2>&1; then git revert --abort >/dev/null 2>&1; git checkout -- . ; echo "$c: revert does not apply cleanly"; return; fi
  git reset -q   # keep as uncommitted working-tree change
  for chk in "$@"; do
    out=$(cd /verif && ./check $chk --tier quick 2>&1); rc=$?
    echo "$c $(git log -1 --format=%s $c | cut -c1-60) | $chk rc=$rc viol=$(echo "$out" | grep -c '^VIOLATION') | $(echo "$out" | grep '^VIOLATION' | head -1 | cut -c1-220)"
  done
  git checkout -- . ; git clean -fdq src
}
run 20da7dd C06 C01
run 24a0fa4 C06
run 2ebdb4f C06
run 620c108 C01
run a0b101f C04
run 4df7fc9 C02 C04
run a7b5dc5 C02
run a7f5df8 C10
run 22c7965 C10 C11
run 6b59896 C08 C19
run 59e5f9c C09
run 96e6a59 C14
git status --porcelain
