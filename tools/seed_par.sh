#!/bin/bash
# usage: tools/seed_par.sh <seed-id> <check>...
# Runs checks against a scratch worktree of /repo with seeded/<seed-id>/patch.diff applied, WITHOUT touching /repo
# (VERIF_REPO / VERIF_OUT redirect the build and the outputs), so that several seeds can be tried concurrently.
id=$1; shift
V=/verif; wt=/tmp/seedwt/$id; out=/tmp/seedout/$id
rm -rf $out; mkdir -p /tmp/seedwt $out
git -C /repo worktree remove --force $wt 2>/dev/null; rm -rf $wt
git -C /repo worktree add -q --detach $wt HEAD || exit 2
git -C $wt apply $V/seeded/$id/patch.diff 2>/dev/null || git -C $wt apply -3 $V/seeded/$id/patch.diff || { echo "$id: patch does not apply"; git -C /repo worktree remove --force $wt; exit 2; }
tag=$(python3 -c "import hashlib,os;print(hashlib.sha1(os.path.realpath('$wt').encode()).hexdigest()[:10])")
tdir=$V/.target/alt-$tag
if [ ! -d $tdir ]; then cp -a --reflink=auto $V/.target/main $tdir; fi
for chk in "$@"; do
  o=$(cd $V && VERIF_REPO=$wt VERIF_OUT=$out VERIF_SEED=${VERIF_SEED:-0} ./check $chk --tier ${TIER:-quick} 2>&1); rc=$?
  echo "$id $chk rc=$rc viol=$(echo "$o" | grep -c '^VIOLATION') hits=$(echo "$o" | tail -1 | grep -o '[0-9]* new violation' | grep -o '[0-9]*' || echo 0) | $(echo "$o" | grep '^VIOLATION' | head -2 | cut -c1-260)"
  [ $rc = 2 ] && echo "$o" | tail -5
done
git -C /repo worktree remove --force $wt; rm -rf $tdir $V/work/alt/$tag $V/.target/alt-$tag*
