#!/usr/bin/env python3
"""Writes ref/golden_cbor.json: CBOR blobs of unit expressions as serialised by the pinned build.
Run once at the pinned commit (after the fix: commits, which do not touch serialisation); never run by a check."""
import sys, os, json, random
HERE = os.path.dirname(os.path.dirname(os.path.abspath(__file__)))
sys.path.insert(0, os.path.join(HERE, "monitors"))
from core import build, units_ref as R, unitgen as G
from core.driver import Driver
d = Driver(build.build("dbg")["vdriver"])
out = {"units": {}, "compounds": []}
for u in R.U.values():
    name = [n for n in u["names"] if R.typeable(n)][0]
    r = d.call({"op": "compound", "s": name})["ok"]
    out["units"][u["name"]] = {"word": name, "hex": r["cbor"], "parts": r["u"], "display": r["disp"]}
V = G.Vocab(d, include_offset=True)
rng = random.Random(20260928)
while len(out["compounds"]) < 300:
    f = V.rand_factors(rng, nmax=4)
    t = G.text(f, rng)
    r = d.call({"op": "compound", "s": t})
    if "ok" in r:
        out["compounds"].append({"text": t, "hex": r["ok"]["cbor"], "parts": r["ok"]["u"], "display": r["ok"]["disp"]})
json.dump(out, open(os.path.join(HERE, "ref", "golden_cbor.json"), "w"), indent=0, ensure_ascii=False)
print(len(out["units"]), len(out["compounds"]))
