#!/bin/bash
# usage: tools/seed_test.sh <patch.diff> <check>...   applies a seeded defect to /repo, runs quick checks, restores /repo
p=$1; shift
cd /repo || exit 1
test -z "$(git status --porcelain)" || { echo "/repo not clean"; exit 1; }
git apply "$p" || { echo "patch does not apply"; exit 1; }
for chk in "$@"; do
  out=$(cd /verif && VERIF_SEED=${VERIF_SEED:-0} ./check $chk --tier ${TIER:-quick} 2>&1); rc=$?
  echo "$chk rc=$rc viol=$(echo "$out" | grep -c '^VIOLATION') | $(echo "$out" | grep '^VIOLATION' | head -2 | cut -c1-260)"
done
git checkout -- . ; git clean -fdq src tests
git status --porcelain
