#!/bin/bash
# usage: tools/confirm_seed.sh <worktree> <id>  - confirms a seeded defect (tests pass with it, demo fails with / passes without), stores it under /verif/seeded/<id>
wt=$1; id=$2
cd $wt || exit 1
export CARGO_TARGET_DIR=$wt/target CARGO_NET_OFFLINE=true
ex=$(cargo test --offline --lib --test entry --doc 2>&1 | grep -E "^test result" | tr '\n' ' ')
cargo test --offline --lib --test entry 2>&1 | grep -E "^test result" > /tmp/confirm_$id.txt
existing_ok=$(grep -c "ok\." /tmp/confirm_$id.txt); existing_fail=$(grep -c "FAILED" /tmp/confirm_$id.txt)
if [ -f tests/seeded_demo.rs ]; then
  with=$(cargo test --offline --test seeded_demo 2>&1 | grep -E "^test result" | head -1)
  git diff -- src > /tmp/confirm_change_$id.diff; git apply -R /tmp/confirm_change_$id.diff
  without=$(cargo test --offline --test seeded_demo 2>&1 | grep -E "^test result" | head -1)
  git apply /tmp/confirm_change_$id.diff
else
  with=$(bash seeded_demo.sh 2>&1 | tail -1; echo "rc=$?"); git diff -- src > /tmp/confirm_change_$id.diff; git apply -R /tmp/confirm_change_$id.diff; without=$(bash seeded_demo.sh 2>&1 | tail -1; echo "rc=$?"); git apply /tmp/confirm_change_$id.diff
fi
echo "$id existing: ok=$existing_ok failed=$existing_fail | demo with change: $with | demo without: $without"
mkdir -p /verif/seeded/$id
cp SEEDED/patch.diff /verif/seeded/$id/patch.diff
cp SEEDED/demo.* /verif/seeded/$id/ 2>/dev/null
python3 - "$id" "$existing_ok" "$existing_fail" "$with" "$without" <<'P'
import json,sys
id,ok,fail,w,wo=sys.argv[1:6]
m=json.load(open('SEEDED/meta.json'))
m['confirmed']={'existing_test_binaries_ok':int(ok),'existing_test_binaries_failed':int(fail),'demo_with_change':w,'demo_without_change':wo}
json.dump(m,open('/verif/seeded/%s/meta.json'%id,'w'),indent=1,ensure_ascii=False)
P
