#!/usr/bin/env python3
"""One-off discovery aid: which trie nodes of the generated unit-word lexer show the fall-back defect?
Sends (a) node + every unit name, for every non-accepting trie node below an accepting one, optionally behind a prefix,
and prints the C05 signatures that result. Used to populate known_findings.json by hand; never run by a check."""
import sys, os, json
sys.path.insert(0, os.path.join(os.path.dirname(os.path.dirname(os.path.abspath(__file__))), "monitors"))
from core import build, unitgen as G, units_ref as R
from core.driver import Driver
import c05

def nodes(trie, prefix="", has_acc=False, out=None):
    out = [] if out is None else out
    acc = "" in trie
    if prefix and not acc and has_acc:
        out.append(prefix)
    for c, n in trie.items():
        if c:
            nodes(n, prefix + c, has_acc or acc, out)
    return out

d = Driver(build.build("dbg")["vdriver"])
V = G.Vocab(d, include_offset=True)
words = set()
names = [n for n in R.NAME2UNITS if R.typeable(n)]
for nd in nodes(R._T1):
    for x in [""] + names:
        words.add(nd + x)
for nd in nodes(R._T2):
    for px in ["k", "m", "da", "Y", "micro"]:
        for x in [""] + names:
            words.add(px + nd + x)
if len(sys.argv) > 1 and sys.argv[1] == "deep":
    conts = [px + n for px in [""] + sorted(R.PREFIXES) for n in names]
    conts = [c for c in conts if R.typeable(c)]
    for nd in nodes(R._T1):
        for x in conts:
            words.add(nd + x)
    for nd in nodes(R._T2):
        for px in ["k", "da"]:
            for x in conts:
                words.add(px + nd + x)
words = sorted(w for w in words if R.typeable(w))
print(len(words), "words")
sigs = {}
for i in range(0, len(words), 4000):
    chunk = words[i:i + 4000]
    reps = d.call_many([{"op": "query", "q": "1 " + w} for w in chunk], timeout=600)
    for w, rep in zip(chunk, reps):
        items = rep.get("items") or []
        if len(items) != 1 or "ok" not in items[0]:
            continue
        (sv, dims), parts = c05.reading_of(V, items[0])
        if any(k in ("D:1c108ba4", "D:95583f60") for k, _, _ in parts):
            continue
        if not R.reading_matches(w, sv, dims):
            fb = R.fallback_node(w)
            sig = ("c05:lexer-fallback:%s:%s" % fb) if fb else "c05:word-reading:" + w
            sigs.setdefault(sig, []).append(w)
for s in sorted(sigs):
    print(s, len(sigs[s]), sigs[s][:4])
