#!/usr/bin/env python3
"""Regenerates MANIFEST.json from the table below and validates it against the schema."""
import json, os, subprocess, sys
HERE = os.path.dirname(os.path.dirname(os.path.abspath(__file__)))
sys.path.insert(0, os.path.join(HERE, "monitors"))
from manifest_data import CHECKS, NOT_APPLICABLE, HOOK_COMMITS

props = [json.loads(l)["id"] for l in open(os.path.join(HERE, "properties.jsonl"))]
checks = []
for pid in props:
    c = CHECKS.get(pid)
    if not c:
        continue
    checks.append({
        "property_id": pid,
        "quick_cmd": "./check %s --tier quick" % pid,
        "thorough_cmd": "./check %s --tier thorough" % pid,
        "evidence_file": "/verif/evidence/%s.json" % pid,
        "replay_cmd_template": "./check %s --replay {path}" % pid,
        "engine": c.get("engine", "monitors"),
        "level_claimed": {"category": c["level"], "text": c["text"], "design_ref": c.get("design_ref", "DESIGN.md §3 " + pid)},
        "level_note": c["note"],
        "technique": c["technique"],
    })
na = [{"property_id": p, "reason": r} for p, r in NOT_APPLICABLE.items() if p not in CHECKS]
for p in props:
    if p not in CHECKS and p not in NOT_APPLICABLE:
        na.append({"property_id": p, "reason": "check not built yet in this phase of the work; nothing is claimed for it"})
m = {
    "version": 1,
    "setup_cmd": "python3 monitors/core/build.py dbg rel",
    "hooks": {
        "guard": "--cfg anything_verif",
        "enable": "RUSTFLAGS='--cfg anything_verif' when cargo builds /verif/harness (path dependency on /repo); monitors/core/build.py does this for every check",
        "baseline_off_cmd": "cd /repo && cargo test --workspace --no-fail-fast --offline",
        "source_commits": HOOK_COMMITS,
        "add_only": True,
    },
    "engines": [
        {"name": "monitors", "path": "/verif/monitors", "serves_properties": [c["property_id"] for c in checks],
         "kind_free_text": "Python 3 workload generators and oracles (exact Fraction evaluator, frozen unit reference, SI normaliser, trace/history checkers) judging observations of the real code"},
        {"name": "vharness", "path": "/verif/harness", "serves_properties": [c["property_id"] for c in checks],
         "kind_free_text": "Rust crate with a path dependency on /repo built with --cfg anything_verif: vdriver (JSON-lines adapter reporting observations of the real API), in-process monitors for the exhaustive spaces (C07, C08, C12, C17), independent tantivy index reader/builder (C15), the real `any` main compiled from /repo/src/bin/any.rs"},
    ],
    "checks": checks,
    "notes": "Runtime monitoring only: every verdict is 'held on the executions observed'. exit 2 from a check means inconclusive (build or harness error), never a verdict. Known findings: /verif/known_findings.json.",
    "not_applicable": na,
}
json.dump(m, open(os.path.join(HERE, "MANIFEST.json"), "w"), indent=1, ensure_ascii=False)
r = subprocess.run(["python3-vt", "-c", "import json,jsonschema;jsonschema.validate(json.load(open('%s/MANIFEST.json')),json.load(open('/root/.vp/MANIFEST.schema.json')));print('MANIFEST valid: %d checks, %d not_applicable')" % (HERE, len(checks), len(na))])
sys.exit(r.returncode)
