#!/bin/bash
# usage: tools/runsome.sh <tier> <seed> <ID>...   - like runall.sh for the named checks only
tier=$1; seed=$2; shift 2
cd "$(dirname "$0")/.."
for id in "$@"; do
  s=$(date +%s)
  out=$(VERIF_SEED=$seed ./check $id --tier $tier 2>&1); rc=$?
  echo "$id rc=$rc $(( $(date +%s) - s ))s $(echo "$out" | grep -c '^VIOLATION') violations | $(echo "$out" | tail -1 | cut -c1-150)"
done
