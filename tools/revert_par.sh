#!/bin/bash
# usage: tools/revert_par.sh <fix-commit> <check>...
# Reverts one `fix:` commit of /repo in a scratch worktree (never in /repo itself) and runs the named quick checks against it through
# VERIF_REPO / VERIF_OUT, like tools/seed_par.sh: the check of the property the fix belongs to has to report the defect again.
c=$1; shift
V=/verif; wt=/tmp/seedwt/rev-$c; out=/tmp/seedout/rev-$c
rm -rf $out; mkdir -p /tmp/seedwt $out
git -C /repo worktree remove --force $wt 2>/dev/null; rm -rf $wt
git -C /repo worktree add -q --detach $wt HEAD || exit 2
if ! git -C $wt revert --no-commit $c >/dev/null 2>&1; then
  git -C $wt revert --abort >/dev/null 2>&1
  # neighbouring hook / fix lines: fall back to a reverse 3-way application of the commit's own diff
  git -C $wt checkout -q -- . ; git -C /repo show $c -- src | git -C $wt apply -R -3 >/dev/null 2>&1 || { echo "$c: revert does not apply"; git -C /repo worktree remove --force $wt; exit 2; }
fi
tag=$(python3 -c "import hashlib,os;print(hashlib.sha1(os.path.realpath('$wt').encode()).hexdigest()[:10])")
tdir=$V/.target/alt-$tag
if [ ! -d $tdir ]; then cp -a --reflink=auto $V/.target/main $tdir; fi
for chk in "$@"; do
  o=$(cd $V && VERIF_REPO=$wt VERIF_OUT=$out VERIF_SEED=${VERIF_SEED:-0} ./check $chk --tier quick 2>&1); rc=$?
  echo "$c $(git -C /repo log -1 --format=%s $c | cut -c1-50) | $chk rc=$rc hits=$(echo "$o" | tail -1 | grep -o '[0-9]* new violation' | grep -o '[0-9]*' || echo 0) | $(echo "$o" | grep '^VIOLATION' | head -1 | cut -c1-160)"
done
git -C /repo worktree remove --force $wt; rm -rf $tdir $V/work/alt/$tag $V/.target/alt-$tag.lock
