#!/bin/bash
# usage: tools/runall.sh <tier> <seed>   - runs every check, prints one line each
tier=${1:-quick}; seed=${2:-0}
cd "$(dirname "$0")/.."
for i in 01 02 03 04 05 06 07 08 09 10 11 12 13 14 15 16 17 18 19; do
  s=$(date +%s)
  out=$(VERIF_SEED=$seed ./check C$i --tier $tier 2>&1); rc=$?
  e=$(( $(date +%s) - s ))
  echo "C$i rc=$rc ${e}s $(echo "$out" | grep -c '^VIOLATION') violations, $(echo "$out" | grep -c '^KNOWN-FINDING') known | $(echo "$out" | tail -1 | cut -c1-150)"
done
