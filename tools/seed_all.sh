#!/bin/bash
# usage: tools/seed_all.sh [jobs]   - every seeded defect against the quick check of its property (scratch worktrees, /repo untouched)
cd "$(dirname "$0")/.."
jobs=${1:-5}
ls seeded | while read id; do
  prop=$(python3 -c "import json;print(json.load(open('seeded/$id/meta.json'))['property'])")
  echo "$id $prop"
done | xargs -P $jobs -L 1 bash -c 'tools/seed_par.sh $0 $1 2>&1 | head -1 | cut -c1-230'
