#!/bin/bash
# usage: tools/revert_hand.sh <fix-commit> <check>...
# The four `fix:` commits whose `git revert` no longer applies (later fixes and hook lines next to them) are undone here by a small
# textual edit in a scratch worktree (never in /repo); then the named quick checks run against it like in tools/revert_par.sh.
c=$1; shift
V=/verif; wt=/tmp/seedwt/rev-$c; out=/tmp/seedout/rev-$c
rm -rf $out; mkdir -p /tmp/seedwt $out
git -C /repo worktree remove --force $wt 2>/dev/null; rm -rf $wt
git -C /repo worktree add -q --detach $wt HEAD || exit 2
python3 - "$c" "$wt" <<'EOF' || { echo "$c: hand revert failed"; git -C /repo worktree remove --force $wt; exit 2; }
import sys
c, wt = sys.argv[1], sys.argv[2]
def edit(path, old, new):
    p = wt + "/" + path
    s = open(p).read()
    assert old in s, (path, old[:40])
    open(p, "w").write(s.replace(old, new, 1))
if c == "620c108":      # zero raised to a negative power is a division by zero
    edit("src/eval.rs", "        if pow.value.numer().is_negative() {\n            return Err(Error::new(span, DivideByZero));\n        }\n\n", "")
elif c == "a0b101f":    # raising a quantity to a power raises its unit as well
    edit("src/eval.rs", "        match pow.value.to_i32().and_then(|n| base.unit.pow(n)) {\n            Some(unit) => unit,\n            None => return Err(Error::new(span, BadArgument { argument: 1 })),\n        }\n", "        base.unit\n")
elif c == "96e6a59":    # build the search index with a single indexing thread
    edit("src/db.rs", "db.index.writer_with_num_threads(1, 50_000_000)?", "db.index.writer(50_000_000)?")
elif c == "43d453c":    # forget that the index is current before rebuilding it
    edit("src/db.rs", "                config.invalidate_meta()?;\n", "")
    edit("src/db.rs", "    config.invalidate_meta()?;\n", "")
else:
    sys.exit(1)
EOF
tag=$(python3 -c "import hashlib,os;print(hashlib.sha1(os.path.realpath('$wt').encode()).hexdigest()[:10])")
tdir=$V/.target/alt-$tag
if [ ! -d $tdir ]; then cp -a --reflink=auto $V/.target/main $tdir; fi
for chk in "$@"; do
  o=$(cd $V && VERIF_REPO=$wt VERIF_OUT=$out VERIF_SEED=${VERIF_SEED:-0} ./check $chk --tier quick 2>&1); rc=$?
  echo "$c $(git -C /repo log -1 --format=%s $c | cut -c1-50) | $chk rc=$rc hits=$(echo "$o" | tail -1 | grep -o '[0-9]* new violation' | grep -o '[0-9]*' || echo 0) | $(echo "$o" | grep '^VIOLATION' | head -1 | cut -c1-160)"
  [ $rc = 2 ] && echo "$o" | tail -4
done
git -C /repo worktree remove --force $wt; rm -rf $tdir $V/work/alt/$tag $V/.target/alt-$tag.lock
